"""C10 — the equation of state is thermodynamically consistent and smoothly extrapolated.

Workload: real WallGo.Thermodynamics objects on the zoo potentials poly1 / poly2 / bag1
(closed-form phases), built
  (a) "direct":  Thermodynamics(...); freeEnergyHigh/Low.tracePhase(explicit range, dT,
      rTol, paranoid, first step); setExtrapolate()
  (b) "manager": WallGoManager.setupThermodynamicsHydrodynamics (template-model ranges,
      dT = scale*tol^(1/4)), which calls setExtrapolate itself,
then evaluated at scalar temperatures from 0.05*TMin to 20*TMax of each phase (log-spaced,
plus T_b, T_b -+ 1 ulp, T_b(1 -+ 4 eps), T_b(1 -+ 1e-14..1e-1) at both range ends, plus
random interior points and exact knots), both phases.

Monitors / oracles (every one counts its evaluations):
  identities      among the *reported* functions: e = T dp - p, w = T dp, de = T ddp,
                  cs^2 = dp/de (inside: few ulp; outside: bit-equal to the value at the
                  range end, and equal to dp/de up to the rounding of pow's exponent),
                  alpha = its formula in the reported functions
  deriv_inside    reported dp, ddp against the derivatives of the cubic through 6 reported
                  pressures inside the same spline interval (numpy.polynomial fit)
  deriv_outside   reported dp, ddp against the power law (mu, amplitude) recovered from
                  three reported pressures T, rT, r^2 T on the extrapolated side
  continuity      p, dp, ddp, cs^2 (and e, w, de) at TMin/TMax of each phase:
                  |f(T_b(1 -+ 4 eps)) - f(T_b)| <= slope*8 eps*T_b + 1e-12 |f|
  exact_p/dp      inside the range, on tables that satisfy P_trace: p against
                  -V(closed-form minimum), dp against the closed form.  Tolerance = K=10 x
                  the *documented* accuracy model evaluated for the case (c10_exact.
                  SplineErrorModel): rTol|V| + 5/384 h^4 M4 for p, 1/24 h^3 M4 for dp, with
                  h the largest table step, M4 the closed-form |d4V/dT4| near T, plus the
                  rows' own noise over the median step.  ddp is recorded against 3/8 h^2 M4
                  but not judged (the property does not state it).
                  Observed on regular tables (5 quick + 2 thorough seeds): p <= 0.05 tol,
                  dp <= 0.58 tol (p99 0.04), ddp <= 6.5 model (p99 0.034).
  alpha_exact     alpha(T_n) (and a few other T inside both ranges) against its closed
                  form, tolerance propagated through alpha from the same error model
  contract        icontract postcondition on Thermodynamics.setExtrapolate (continuity +
                  range attributes), evaluated every time the real code calls it
P_trace (C11's subject) is decided per phase with the closed-form existence interval and
branch; a hopped table is "inadmissible(P_trace)" and nothing of that phase is judged; a
table on its branch but off the minimum only loses the closed-form oracles.  A table whose
rows are at the minimum but whose stored free energy is not the potential at the tabulated
point stays fully judged (p = -V(minimum) is C10's own statement; the noise term of the
tolerance is then taken from the rows, not from the stored column).
Requested range ends (route direct) are deliberately placed next to the tracer's steps: the
last RK45 step onto the end is then a remainder of 1e-5..8e-3 dT, which tracePhase merges
into the previous row (abscissa of the end, everything else must be of the end too).  A phase whose
closed-form EOS is unphysical at a range end (dp <= 0 or cs^2 outside (0.01,1)) is
inadmissible too (mu = 1 + 1/cs^2 presupposes it).  Points where a*T^mu is formed from
factors that over/underflow individually ((|mu|+2) max|ln T| > 600; python's float pow
raises OverflowError there) are counted, not judged.

Mechanism names: identity-*, dp/ddp-not-derivative-of-p:<phase>:<region>,
discontinuous-<f>:<phase>:<end>, contract:setExtrapolate-discontinuous-<f>:..,
pressure-not-minus-potential-at-minimum:<phase>, dp-off-closed-form:<phase>,
alpha-off-closed-form[-at-Tn], setExtrapolate-raises / -not-idempotent,
thermo-function-raises/non-finite:.., extrapolation-coefficient-factors-overflow, and
  near-coincident-table-abscissae-corrupt-derivatives   closed-form mismatch of dp / alpha
      on a table whose two closest abscissae are < 1e-6 median steps apart at a *requested*
      end: tracePhase's RK45 lands on t_bound with a remainder step of ~1e-13 dT when the
      end is an integer number of steps from T_n, and the spline through the coincident
      pair amplifies rounding noise (observed: dp off by 1e-4..7e-2, cs^2(T_b) -0.19 / 0.002
      instead of 0.32 / 0.25, mu = -4 or 472, NaN extrapolation).
"""
from __future__ import annotations

import math
import traceback

import numpy as np

from wgverif import env  # noqa: F401
from wgverif.models import potentials as P
from wgverif.oracles import c10_contract as CT
from wgverif.oracles import c10_exact as EX

PROPERTY = "C10"
RULE = ("zoo potentials poly1/poly2/bag1 with random parameters (physical at T_n: dp>0, "
        "0<cs^2<1 in both phases), random unit factor 1e-2..1e2, random T_n; route 'direct' "
        "(explicit ranges inside the existence interval or past a spinodal, 20 % with both ends "
        "an integer number of steps from T_n ('round numbers'), dT 4e-4..4e-3 T_n, "
        "70 % of the 'inside' ends of every phase placed relative to the tracer's own steps "
        "(50 % a remainder r dT, r log-uniform in [1e-5, 8e-3], beyond a step -- the window in "
        "which tracePhase merges the last step into the previous row --, 10 % exactly on a "
        "step, 10 % r dT before one; step positions from a scratch trace of T_n -+ 14 dT, "
        "achievement read off the finished table), "
        "rTol in {1e-5,1e-6,1e-8}, paranoid on/off, first step None/0.1 dT, exact or "
        "1%-perturbed phase guesses) or 'manager' (phaseTracerTol in {1e-5,1e-6,1e-7}, tmin/tmax "
        "{0.8,0.9}/{1.2,1.1}); temperatures as in the module docstring.  Non-trivial: a "
        "(case, phase, region) whose table passed P_trace(no hop) and in which at least one "
        "oracle was decided; regions are below / TMin / inside / TMax / above; distinct by "
        "(model parameters, route, settings, phase, region).")
ASSUMPTIONS = [
    "closed-form branch, V, dV/dT (envelope theorem) and d2V/dT2 (implicit differentiation) "
    "of the zoo potentials are the reference; they are finite-difference self-checked per case",
    "P_trace: a traced table that left its closed-form branch / existence interval is C11's "
    "subject and is counted as inadmissible, not judged",
    "closed-form oracles (p = -V_min, dp, alpha) are judged only on tables whose rows have a "
    "free-energy excess <= 10*rTol*|V| (value-level reading, DESIGN 2.3-5)",
    "outside the range the reported pressure is assumed to be a power law plus constant "
    "(the documented template-model form) when its derivatives are recovered from three samples",
    "the closed-form EOS of a judged phase is physical at both range ends (dp>0, 0.01<cs^2<1)",
    "extrapolated points whose power-law factors over/underflow individually are not judged",
]
CASE_TIMEOUT = 900
CHUNK = 1
K_MODEL = 10.0          # safety factor on the documented accuracy model (DESIGN 2.3-3)
ULP_ID = 8.0            # identities among reported functions (observed: 0 ulp, same float ops)
# floors: ~55 % of the smallest count seen on the unchanged tree over seeds 0..4 (quick) /
# seeds 0,1 (thorough); a repaired tracePhase (C11) only raises the counts
FLOORS = {
    "quick": {"distinct_nontrivial": 320,
              "mon": {"identities": 75000, "deriv_inside": 9000, "deriv_outside": 7500,
                      "continuity": 800, "exact_p": 9000, "exact_dp": 9000, "alpha_exact": 200,
                      "alpha_identity": 1000, "contract_setExtrapolate": 40,
                      "boundary_evaluations": 4000,
                      # requested ends placed next to a tracer step *and* found so in the
                      # finished table of a judged phase (seeds 0..4: 33..45 / 7..13 / 4..10)
                      "ends_placed_beyond": 18, "ends_placed_on": 3, "ends_placed_below": 2},
              "cls": {"route:direct": 20, "route:manager": 16, "P_trace:ok": 35,
                      "fam:poly1": 12, "fam:poly2": 12, "fam:bag1": 12,
                      "end-placed:beyond:high:hi": 3, "end-placed:beyond:high:lo": 3,
                      "end-placed:beyond:low:hi": 3, "end-placed:beyond:low:lo": 3,
                      "boundary:high:TMin": 30, "boundary:high:TMax": 30,
                      "boundary:low:TMin": 30, "boundary:low:TMax": 30}},
    "thorough": {"distinct_nontrivial": 3500,
                 "mon": {"identities": 2500000, "deriv_inside": 400000, "deriv_outside": 250000,
                         "continuity": 9000, "exact_p": 400000, "exact_dp": 400000,
                         "alpha_exact": 2000, "alpha_identity": 10000,
                         "contract_setExtrapolate": 400, "boundary_evaluations": 40000,
                         "ends_placed_beyond": 250, "ends_placed_on": 40, "ends_placed_below": 30},
                 "cls": {"route:direct": 300, "route:manager": 180, "P_trace:ok": 450,
                         "end-placed:beyond:high:hi": 40, "end-placed:beyond:high:lo": 40,
                         "end-placed:beyond:low:hi": 40, "end-placed:beyond:low:lo": 40,
                         "fam:poly1": 150, "fam:poly2": 150, "fam:bag1": 150,
                         "boundary:high:TMin": 400, "boundary:high:TMax": 400,
                         "boundary:low:TMin": 400, "boundary:low:TMax": 400}},
}
EPS = float(np.finfo(float).eps)
SFX = {"high": "HighT", "low": "LowT"}
NAMES = ("p", "dp", "ddp", "e", "de", "w", "csq")


def worker_init():
    env.import_wallgo()
    env.ensure_deps()
    CT.install(record=True)


# --------------------------------------------------------------------------- generation
def _pot1(spec):
    return P.build_potential({**spec, "s": 1.0})


def _physical_spec(spec):
    pot = _pot1(spec)
    Tn = spec["Tn_over_s"]
    ph = pot.phases(Tn)
    if ph["high"] is None or ph["low"] is None:
        return False
    try:
        return all(EX.physical(pot, p, np.array([0.9 * Tn, Tn, 1.1 * Tn])) for p in ("high", "low"))
    except Exception:
        return False


def _draw_spec(rng, fam):
    spec = None
    for _ in range(60):
        spec = getattr(P, "random_" + fam)(rng)
        if _physical_spec(spec):
            return spec
    return spec


def _direct_ranges(rng, spec):
    """Explicit tracing ranges in units of s, chosen against the closed-form existence
    interval (materialised in the case, so replay does not depend on this function)."""
    pot = _pot1(spec)
    Tn = spec["Tn_over_s"]
    out = {}
    dT0 = Tn * float(10 ** rng.uniform(-3.4, -2.4))
    for phase in ("high", "low"):
        lo_e, hi_e = pot.exists(phase)
        dT = dT0 * float(rng.choice([1.0, 1.0, 0.5, 2.0]))
        below, above = (dT * float(rng.uniform(8, 300)) for _ in range(2))
        mode = ["inside", "inside"]
        Tlo, Thi = max(Tn - below, 0.2 * Tn), Tn + above
        if lo_e > 0:
            if rng.random() < 0.25:
                Tlo, mode[0] = 0.97 * lo_e, "past-spinodal"
            else:
                Tlo = max(Tlo, lo_e + 0.15 * (Tn - lo_e))
        plo, phi_ = _physical_window(pot, phase, Tn)
        if mode[0] == "inside":
            Tlo = max(Tlo, plo)
        if math.isfinite(hi_e):
            if rng.random() < 0.25:
                Thi, mode[1] = 1.03 * hi_e, "past-spinodal"
            else:
                Thi = min(Thi, hi_e - 0.15 * (hi_e - Tn))
        if mode[1] == "inside":
            Thi = min(Thi, phi_)
        # at least ~6 steps on the shorter side (not an integer number of them), at most
        # ~1500 steps in total
        dT = min(dT, (Tn - Tlo) / float(rng.uniform(6.2, 8.8)), (Thi - Tn) / float(rng.uniform(6.2, 8.8)))
        dT = max(dT, (Thi - Tlo) / 1500)
        if rng.random() < 0.2:
            # "round numbers": both requested ends an integer number of steps from T_n
            for side in (0, 1):
                if mode[side] == "inside":
                    n = max(3, int(round(abs((Tlo if side == 0 else Thi) - Tn) / dT)))
                    if side == 0:
                        Tlo = Tn - n * dT
                    else:
                        Thi = Tn + n * dT
                    mode[side] = "inside-commensurate"
        out[phase] = {"Tlo": float(Tlo), "Thi": float(Thi), "dT": float(dT), "mode": mode}
    return out


def _physical_window(pot, phase, Tn):
    """Largest interval around Tn (within [0.2 Tn, 3 Tn] and the existence interval) on
    which the closed-form EOS of the phase is physical (dp>0, ddp>0, 0.02<cs^2<0.95)."""
    lo_e, hi_e = pot.exists(phase)
    out = []
    for grid in (np.linspace(Tn, max(0.2 * Tn, lo_e * 1.0001 + 1e-12), 400),
                 np.linspace(Tn, min(3 * Tn, hi_e * 0.9999), 400)):
        q = EX.eos(pot, phase, grid)
        with np.errstate(all="ignore"):
            ok = (q["dp"] > 0) & (q["ddp"] > 0) & (q["csq"] > 0.02) & (q["csq"] < 0.95)
        bad = np.nonzero(~ok)[0]
        out.append(float(grid[-1] if bad.size == 0 else grid[max(bad[0] - 1, 0)]))
    return out[0], out[1]


PLACE_R = (1e-5, 8e-3)      # remainder beyond a tracer step, in units of dT (merge window 1e-2)


def _place_spec(rng):
    """Where a requested range end is put relative to the tracer's steps (T_n -+ ramp-up
    steps -+ k dT): 'beyond' = r dT past a step (RK45's last step onto the end is a remainder
    r dT, which tracePhase merges into the previous row), 'on' = exactly on a step, 'below' =
    r dT before a step (last step (1-r) dT), None = wherever _direct_ranges put it."""
    u = rng.random()
    r = float(10 ** rng.uniform(math.log10(PLACE_R[0]), math.log10(PLACE_R[1])))
    if u < 0.5:
        return {"kind": "beyond", "r": r, "back": int(rng.integers(0, 3))}
    if u < 0.6:
        return {"kind": "on", "r": 0.0, "back": int(rng.integers(0, 3))}
    if u < 0.7:
        return {"kind": "below", "r": r, "back": int(rng.integers(0, 3))}
    return None


def generate(tier, seed):
    rng = np.random.default_rng(10000 + seed)
    # separate stream: end placement does not disturb the population of models and ranges
    rng_e = np.random.default_rng(10500 + seed)
    n_direct, n_manager = (30, 24) if tier == "quick" else (420, 261)
    nT = {"log": 110, "in": 110} if tier == "quick" else {"log": 400, "in": 500}
    fams = ["poly1", "poly2", "bag1"]
    cases = []
    for i in range(n_direct + n_manager):
        route = "direct" if i < n_direct else "manager"
        fam = fams[i % 3]
        spec = _draw_spec(rng, fam)
        case = {"i": i, "route": route, "spec": spec, "nT": nT,
                "exact_guess": bool(rng.random() < 0.6),
                "s": int(rng.integers(1 << 30))}
        if route == "direct":
            case["trace"] = {"ranges": _direct_ranges(rng, spec),
                             "rTol": float(rng.choice([1e-5, 1e-6, 1e-6, 1e-8])),
                             "paranoid": bool(rng.random() < 0.7),
                             # absolute first step (the code hands it to RK45 unscaled),
                             # here as a fraction of that phase's dT
                             "firstStepFrac": None if rng.random() < 0.7 else 0.1,
                             "twice": bool(rng.random() < 0.5)}
            case["trace"]["place"] = {
                ph: {side: (_place_spec(rng_e) if case["trace"]["ranges"][ph]["mode"][j] == "inside"
                            else None) for j, side in enumerate(("lo", "hi"))}
                for ph in ("high", "low")}
        else:
            j = int(rng.integers(3))
            case["cfg"] = {"phaseTracerTol": float(rng.choice([1e-6, 1e-6, 1e-5, 1e-7])),
                           "thermo_tmin": [0.8, 0.9, 0.8][j], "thermo_tmax": [1.2, 1.1, 1.1][j]}
        cases.append(case)
    return cases


# ------------------------------------------------------------------------------ builders
def _guesses(pot, Tn, exact):
    ph = pot.phases(Tn)
    if ph["high"] is None or ph["low"] is None:
        return None
    hi, lo = pot.to_code(ph["high"]), pot.to_code(ph["low"])
    if not exact:
        fs = pot.field_scale(Tn)
        hi, lo = hi + 0.01 * fs, lo - 0.01 * fs
    return hi, lo


def _scales(pot, spec, Tn):
    import WallGo
    s = spec.get("s", 1.0)
    Tc = pot.Tc()
    tscale = (Tc - Tn) if np.isfinite(Tc) and Tc > Tn else 0.1 * Tn
    fs = pot.field_scale(Tn)
    fscale = np.full(pot.fieldCount, fs) if pot.fieldCount > 1 else float(fs)
    return WallGo.VeffDerivativeSettings(temperatureVariationScale=float(tscale),
                                         fieldValueVariationScale=fscale), s


def build_direct(case):
    import WallGo
    spec = case["spec"]
    pot = P.build_potential(spec)
    s = spec.get("s", 1.0)
    Tn = spec["Tn_over_s"] * s
    g = _guesses(pot, Tn, case["exact_guess"])
    if g is None:
        raise ValueError("phases do not exist at Tn")
    hi, lo = g
    scales, _ = _scales(pot, spec, Tn)
    pot.configureDerivatives(scales)
    th = WallGo.Thermodynamics(pot, Tn, WallGo.Fields(lo), WallGo.Fields(hi))
    tr = case["trace"]
    placed = {}
    for phase, fe, guess in (("high", th.freeEnergyHigh, hi), ("low", th.freeEnergyLow, lo)):
        r = tr["ranges"][phase]
        first = None if tr["firstStepFrac"] is None else tr["firstStepFrac"] * r["dT"] * s
        ends = [r["Tlo"] * s, r["Thi"] * s]
        want = (tr.get("place") or {}).get(phase) or {}
        if any(want.get(side) for side in ("lo", "hi")):
            ends, placed[phase] = _place_ends(pot, Tn, guess, ends, r["dT"] * s, tr, first, want)
        fe.tracePhase(ends[0], ends[1], r["dT"] * s, rTol=tr["rTol"],
                      paranoid=tr["paranoid"], phaseTracerFirstStep=first)
        for side, pl in (placed.get(phase) or {}).items():
            # what the finished table says about the last step onto this end
            X = np.asarray(fe._interpolationPoints, dtype=float)
            gap = (X[1] - X[0]) if side == "lo" else (X[-1] - X[-2])
            end_ok = (X[0] == ends[0]) if side == "lo" else (X[-1] == ends[1])
            pl["last_gap_over_dT_minus_1"] = float(gap / (r["dT"] * s) - 1.0)
            pl["table_reaches_end"] = bool(end_ok)
    return pot, th, Tn, tr["rTol"], placed


class _StepLog:
    """Swaps scipy.integrate.RK45 (resolved by WallGo.freeEnergy at call time) for a
    subclass that logs the temperature after every step: {integration index: [t, ...]}."""

    def __enter__(self):
        import scipy.integrate as si
        self.si, self.base, self.steps, log = si, si.RK45, {}, self

        class LoggingRK45(self.base):
            def __init__(self, *a, **k):
                super().__init__(*a, **k)
                self._wg_id = len(log.steps)
                log.steps[self._wg_id] = []

            def step(self):
                out = super().step()
                log.steps[self._wg_id].append(float(self.t))
                return out

        si.RK45 = LoggingRK45
        return self

    def __exit__(self, *exc):
        self.si.RK45 = self.base
        return False


N_SCRATCH = 14


def _place_ends(pot, Tn, guess, ends, dT, tr, first, want):
    """Move the requested ends onto / next to a step of the tracer.

    The accepted steps are read off a *scratch* FreeEnergy traced over T_n -+ 14 dT with the
    same settings (RK45's ramp-up from its first step to max_step = dT; each integration
    direction is its own RK45 and does not depend on the far end).  Once three consecutive
    steps equal dT the remaining ones are T + k dT, accumulated in the solver's own floating
    point order.  Whether the placement was achieved is read off the finished table
    afterwards (build_direct), never assumed."""
    import WallGo
    info = {}
    scratch = WallGo.FreeEnergy(pot, Tn, WallGo.Fields(guess))
    try:
        with _StepLog() as log:
            scratch.tracePhase(Tn - N_SCRATCH * dT, Tn + N_SCRATCH * dT, dT, rTol=tr["rTol"],
                               paranoid=tr["paranoid"], phaseTracerFirstStep=first)
    except Exception as exc:      # noqa: BLE001 - e.g. a spinodal within 14 dT
        for side in ("lo", "hi"):
            if want.get(side):
                info[side] = {**want[side], "status": "scratch-trace-raised:" + repr(exc)[:80]}
        return ends, info
    out = list(ends)
    for j, side, integ, sgn in ((1, "hi", 0, 1.0), (0, "lo", 1, -1.0)):
        w = want.get(side)
        if not w:
            continue
        st = log.steps.get(integ, [])[:-1]          # the last one is the scratch range end
        d = np.abs(np.diff(st[-4:]))
        if len(st) < 5 or not np.all(np.abs(d / dT - 1.0) < 1e-9):
            info[side] = {**w, "status": "ramp-up-not-finished-within-scratch-range"}
            continue
        # last step t_k with t_k + r dT not beyond the nominal end, minus 'back' steps
        t, hist = st[-1], []
        while sgn * ((t + sgn * dT) + sgn * w["r"] * dT - ends[j]) <= 0 and len(hist) < 10000:
            t = t + sgn * dT
            hist.append(t)
        if len(hist) < 4 + w["back"]:
            info[side] = {**w, "status": "range-too-short"}
            continue
        t = hist[-1 - w["back"]]
        out[j] = float(t + sgn * w["r"] * dT if w["kind"] == "beyond" else
                       (t if w["kind"] == "on" else t - sgn * w["r"] * dT))
        info[side] = {**w, "status": "placed", "step": float(t), "end": out[j],
                      "nominal_end": float(ends[j]), "steps_from_Tn": len(st) + len(hist) - w["back"]}
    return out, info


def build_manager(case):
    import WallGo
    from wgverif.checks import _manager as MG
    spec = case["spec"]
    b = MG.build(spec, case["cfg"], setup=False)
    pot, Tn, manager = b["pot"], b["Tn"], b["manager"]
    phaseInfo = b["phaseInfo"]
    if case["exact_guess"]:
        hi, lo = _guesses(pot, Tn, True)
        phaseInfo = WallGo.PhaseInfo(temperature=Tn, phaseLocation1=WallGo.Fields(hi),
                                     phaseLocation2=WallGo.Fields(lo))
    manager.setupThermodynamicsHydrodynamics(phaseInfo, b["scales"])
    return pot, manager.thermodynamics, Tn, case["cfg"]["phaseTracerTol"], manager


# ------------------------------------------------------------------------- temperatures
BOUNDARY_OFFSETS = np.concatenate([[0.0], np.geomspace(1e-14, 1e-1, 14)])


def temperatures(rng, TMin, TMax, knots, nT):
    """[(T, tag)] scalar temperatures for one phase."""
    out = [(float(T), "log") for T in np.geomspace(0.05 * TMin, 20 * TMax, nT["log"])]
    for Tb in (TMin, TMax):
        out += [(float(np.nextafter(Tb, -np.inf)), "bnd"), (float(np.nextafter(Tb, np.inf)), "bnd"),
                (Tb * (1 - 4 * EPS), "bnd"), (Tb * (1 + 4 * EPS), "bnd")]
        for d in BOUNDARY_OFFSETS:
            out += [(Tb * (1 - d), "bnd"), (Tb * (1 + d), "bnd")]
    out += [(float(min(max(T, TMin), TMax)), "in") for T in rng.uniform(TMin, TMax, nT["in"])]
    kin = knots[(knots > TMin) & (knots < TMax)]
    if kin.size:
        out += [(float(T), "knot") for T in rng.choice(kin, size=min(6, kin.size), replace=False)]
    return [(float(T), tag) for T, tag in out]


# ------------------------------------------------------------------------------ helpers
class Tally:
    """max / median / p99 of residual-to-tolerance ratios per oracle."""

    def __init__(self):
        self.r = {}

    def add(self, name, ratio):
        self.r.setdefault(name, []).append(float(ratio))

    def digest(self):
        out = {}
        for k, v in self.r.items():
            a = np.asarray(v)
            a = a[np.isfinite(a)]
            if a.size:
                out[k] = {"n": int(a.size), "max": float(a.max()),
                          "median": float(np.median(a)), "p99": float(np.quantile(a, 0.99))}
        return out


class Viol:
    """Keeps the worst observation per mechanism (with a count)."""

    def __init__(self):
        self.d = {}

    def add(self, mech, ratio, msg, data=None):
        cur = self.d.get(mech)
        ratio = float(ratio) if np.isfinite(ratio) else float("inf")
        if cur is None:
            self.d[mech] = {"mech": mech, "msg": msg, "data": dict(data or {}), "n": 1,
                            "ratio": ratio}
        else:
            cur["n"] += 1
            if ratio > cur["ratio"]:
                cur.update(msg=msg, data=dict(data or {}), ratio=ratio)

    def list(self):
        out = []
        for v in self.d.values():
            v["data"]["observations"] = v["n"]
            v["data"]["worst_ratio"] = v["ratio"]
            out.append({"mech": v["mech"], "msg": v["msg"] + f" [{v['n']} observation(s)]",
                        "data": v["data"]})
        return out


def report(th, sfx, T):
    """All seven reported functions at scalar T.  Returns (values, error)."""
    vals = {}
    for nm in NAMES:
        try:
            vals[nm] = float(getattr(th, nm + sfx)(T))
        except Exception as exc:      # noqa: BLE001
            return vals, (nm, repr(exc)[:200])
    return vals, None


def _div(a, b):
    """Float division that returns nan/inf instead of raising (python floats raise)."""
    try:
        return a / b
    except ZeroDivisionError:
        return float("nan") if a == 0 or a != a else math.copysign(float("inf"), a)


def _power_law_safe(d, T):
    """False where a*T^mu is formed from factors that over/underflow individually (python's
    float pow raises OverflowError there): (|mu|+2) * max|ln| of T (and of the 3-sample
    stencil T/4..4T) and of the matching temperature must stay below 600."""
    if d["TMin"] <= T <= d["TMax"]:
        return True
    i = 0 if T < d["TMin"] else 1
    Tb = d["TMin"] if i == 0 else d["TMax"]
    mu_b = 1.0 + _div(1.0, d["csq_end"][i])
    return bool(math.isfinite(mu_b) and (abs(mu_b) + 2) * max(
        abs(math.log(4 * T)), abs(math.log(T / 4)), abs(math.log(Tb))) <= 600)


def region_of(T, TMin, TMax):
    return "below" if T < TMin else ("above" if T > TMax else "inside")


# ------------------------------------------------------------------- derivative oracles
CHEB6 = np.cos(np.pi * (2 * np.arange(6) + 1) / 12.0)


def cubic_fit_derivatives(pfun, T, a, b):
    """Derivatives at T of the cubic through 6 reported pressures on [a,b] (one spline
    piece).  Returns dp, ddp, tol_dp, tol_ddp, fit residual / rounding scale."""
    from numpy.polynomial import polynomial as NP
    mid, half = 0.5 * (a + b), 0.5 * (b - a)
    x = mid + half * CHEB6
    q = np.array([float(pfun(float(xi))) for xi in x])
    c = NP.polyfit(CHEB6, q, 3)
    u = (T - mid) / half
    dp = float(NP.polyval(u, NP.polyder(c, 1))) / half
    ddp = float(NP.polyval(u, NP.polyder(c, 2))) / half ** 2
    qmax = float(np.max(np.abs(q)))
    resid = float(np.max(np.abs(NP.polyval(CHEB6, c) - q)))
    # data rounding 2 eps|p| (spline evaluation) amplified by the Markov factors of a cubic
    # on [-1,1] (9 and 24) and the least-squares conditioning (<= 4): 2*9*4 and 2*24*4; the
    # fit residual shows the data noise is up to ~6 eps|p| rather than 2, hence another
    # factor 2 (observed with 72/192 over 1.4e6 points: max 0.43, p99 0.39 of the bound)
    return dp, ddp, 144 * EPS * qmax / half, 384 * EPS * qmax / half ** 2, resid / (EPS * qmax)


def power_law_derivatives(pfun, T, outward):
    """dp, ddp of the power law A T^mu - eps recovered from p at T, rT, r^2 T (r = 2 above
    the range, 1/2 below).  Returns None when the three samples are not on a power law."""
    r = 2.0 if outward > 0 else 0.5
    q = [float(pfun(float(T * r ** i))) for i in range(3)]
    d1, d2 = q[1] - q[0], q[2] - q[1]
    if not (np.isfinite(d1) and np.isfinite(d2)) or d1 == 0 or d2 / d1 <= 0 or d2 == d1:
        return None
    ratio = d2 / d1
    mu = math.log(ratio) / math.log(r)
    G = d1 / (ratio - 1.0)                       # (a/3) T^mu
    qmax = max(abs(v) for v in q)
    rho = 2 * EPS * qmax * (1 / abs(d1) + 1 / abs(d2))       # relative error of the ratio
    dmu = rho / abs(math.log(r))
    dG = 2 * EPS * qmax / abs(d1) + rho * ratio / abs(ratio - 1.0)
    # exponents mu, mu-1, mu-2 are rounded separately inside pow: eps*(mu+2)*|ln T| each
    expo = 4 * EPS * (abs(mu) + 2) * abs(math.log(T))
    rel_dp = 8 * (dmu / abs(mu) + dG) + expo + 16 * EPS
    rel_ddp = 8 * (dmu * (1 / abs(mu) + 1 / max(abs(mu - 1.0), 1e-300)) + dG) + expo + 16 * EPS
    return {"mu": mu, "dp": mu * G / T, "ddp": mu * (mu - 1.0) * G / T ** 2,
            "rel_dp": rel_dp, "rel_ddp": rel_ddp}


# ------------------------------------------------------------------------------ the case
def run_case(case):
    rng = np.random.default_rng(case["s"])
    spec = case["spec"]
    fam, route = spec["family"], case["route"]
    key0 = f"{fam}:{route}:{case['i']}:{case['s'] % 9973}"
    mon = {k: 0 for k in ("identities", "deriv_inside", "deriv_outside", "continuity",
                          "exact_p", "exact_dp", "alpha_exact", "alpha_identity",
                          "contract_setExtrapolate", "contract_rows", "boundary_evaluations",
                          "evaluations", "deriv_interval_too_narrow", "deriv_outside_undecided",
                          "oracle_self_check", "power_law_factor_overflow(not judged)",
                          "harness_point_errors")}
    obs = {"spec": spec, "route": route}
    classes = [f"route:{route}", f"fam:{fam}"]
    V, tally = Viol(), Tally()
    CT.install(record=True)
    CT.drain()

    # ---------------------------------------------------------------- construction
    manager = None
    try:
        placed = {}
        if route == "direct":
            pot, th, Tn, rtol, placed = build_direct(case)
        else:
            pot, th, Tn, rtol, manager = build_manager(case)
    except Exception as exc:      # noqa: BLE001
        tb = traceback.format_exc()
        CT.drain()
        if "in setExtrapolate" in tb:
            # a raising setExtrapolate is C10's own subject
            V.add("setExtrapolate-raises", 1.0, f"setExtrapolate raised {exc!r} ({route})",
                  {"trace": tb[-600:]})
            return {"key": key0, "cls": classes + ["setExtrapolate-raises"], "nontrivial": True,
                    "obs": obs, "viol": V.list(), "mon": mon}
        return {"key": key0, "cls": classes + ["construction-error"], "nontrivial": False,
                "obs": {**obs, "error": repr(exc)[:300]}, "viol": [], "mon": mon}
    if route == "direct":
        try:
            th.setExtrapolate()
            if case["trace"]["twice"]:
                before = _coefficients(th)
                th.setExtrapolate()
                after = _coefficients(th)
                if not np.array_equal(before, after, equal_nan=True):
                    V.add("setExtrapolate-not-idempotent", 1.0,
                          f"second setExtrapolate() changed the coefficients: {before} -> {after}")
        except Exception as exc:      # noqa: BLE001
            V.add("setExtrapolate-raises", 1.0, f"setExtrapolate raised {exc!r}",
                  {"trace": traceback.format_exc()[-600:]})
            return {"key": key0, "cls": classes + ["setExtrapolate-raises"], "nontrivial": True,
                    "obs": obs, "viol": V.list(), "mon": mon}

    # ---------------------------------------------------------------- per-phase set-up
    events = CT.drain()
    info, keys = {}, []
    for phase in ("high", "low"):
        sfx = SFX[phase]
        fe = th.freeEnergyHigh if phase == "high" else th.freeEnergyLow
        TMin, TMax = float(getattr(th, "TMin" + sfx)), float(getattr(th, "TMax" + sfx))
        pt = EX.p_trace(pot, phase, fe, rtol, K=K_MODEL)
        knots = np.asarray(fe._interpolationPoints, dtype=float)
        d = {"TMin": TMin, "TMax": TMax, "P_trace": pt["status"], "why": pt["why"],
             "rows": pt["rows"], "table": pt["table"], "exists": list(pot.exists(phase)),
             "flags": [bool(fe.minPossibleTemperature[1]), bool(fe.maxPossibleTemperature[1])],
             "mu": [float(getattr(th, "muMin" + sfx)), float(getattr(th, "muMax" + sfx))],
             "a": [float(getattr(th, "aMin" + sfx)), float(getattr(th, "aMax" + sfx))],
             "epsilon": [float(getattr(th, "epsilonMin" + sfx)),
                         float(getattr(th, "epsilonMax" + sfx))],
             "Tn_in_range": bool(TMin <= Tn <= TMax)}
        if pt.get("stored_V_mismatch"):
            d["stored_V_mismatch"] = pt["stored_V_mismatch"]
            classes.append("table-V-column-not-potential-at-row(judged)")
        info[phase] = d
        if pt["status"] == "hop":
            classes.append("inadmissible(P_trace):hop")
            continue
        ends = EX.eos(pot, phase, np.array([TMin, TMax]))
        d["csq_exact_at_ends"] = [float(c) for c in ends["csq"]]
        with np.errstate(all="ignore"):
            phys = bool(np.all(ends["dp"] > 0) and np.all(ends["ddp"] > 0)
                        and np.all(ends["csq"] > 0.01) and np.all(ends["csq"] < 1.0))
        if not phys:
            # the template extrapolation mu = 1 + 1/cs^2 presupposes a physical EOS at the
            # matching point (negative entropy / cs^2 <= 0 happen in toy potentials far
            # from T_n; cs^2 -> 0+ within 2 dT of a spinodal)
            classes.append("inadmissible(unphysical-eos-at-range-end)")
            continue
        classes.append("P_trace:ok" if pt["status"] == "ok" else
                       "P_trace:off-minimum(closed-form oracles skipped)")
        d["knots"] = knots
        d["nu"] = pt["nu"]
        hk = np.diff(knots)
        d["closest_abscissae"] = {"hmin_over_hmed": float(hk.min() / np.median(hk)),
                                  "at": float(knots[int(np.argmin(hk))])}
        if pt["status"] == "ok":
            # guard the oracle itself
            Tm = 0.5 * (TMin + TMax)
            sc = EX.self_check(pot, phase, Tm)
            mon["oracle_self_check"] += 1
            # 4th-order differences with h = 2e-3 T: 1e-9..3e-6 on the unchanged zoo (largest
            # next to a spinodal, where V_phase has a square-root singularity); a wrong
            # closed form gives O(1e-2..1)
            if max(sc) > 1e-4:
                return {"key": key0, "cls": classes, "nontrivial": False, "obs": obs, "viol": [],
                        "mon": mon, "inconclusive": f"closed-form self-check failed {sc}"}
            d["model"] = EX.SplineErrorModel(pot, phase, knots, pt["nu"])
    obs["Tn"] = Tn
    # requested ends placed relative to the tracer's steps: achieved or not is read off the
    # finished table (last abscissa gap), and only phases that are judged are counted
    obs["placed"] = placed
    for phase, sides in placed.items():
        for side, pl in sides.items():
            g = pl.get("last_gap_over_dT_minus_1")
            if pl.get("status") != "placed" or g is None:
                classes.append(f"end-placed:{pl['kind']}:{pl.get('status', '?').split(':')[0]}")
                continue
            ok = pl["table_reaches_end"] and (
                (1e-6 < g < 1e-2 and abs(g / pl["r"] - 1) < 1e-3) if pl["kind"] == "beyond" else
                (abs(g) < 1e-10) if pl["kind"] == "on" else (abs(g / -pl["r"] - 1) < 1e-3))
            pl["achieved"] = bool(ok)
            if not ok:
                classes.append(f"end-placed:{pl['kind']}:not-achieved")
            elif "knots" in info[phase]:
                classes.append(f"end-placed:{pl['kind']}")
                classes.append(f"end-placed:{pl['kind']}:{phase}:{side}")
                mon["ends_placed_" + pl["kind"]] = mon.get("ends_placed_" + pl["kind"], 0) + 1
            else:
                classes.append(f"end-placed:{pl['kind']}:phase-not-judged")

    # ------------------------------------------------------- contract events (real calls)
    for ev in events:
        if ev["thermo"] != id(th):
            continue
        mon["contract_setExtrapolate"] += 1
        for r in ev["rows"]:
            if r["ok"] is None or "knots" not in info[r["phase"]]:
                continue
            if _end_overflows(info[r["phase"]], r["end"], V, mon, fam, route):
                continue
            mon["contract_rows"] += 1
            if r["f"] == "raises":
                V.add(f"contract:eos-raises-at-range-end:{r['phase']}:{r['end']}", 1.0,
                      f"after setExtrapolate the EOS raised at {r['end']} of the {r['phase']} "
                      f"phase: {r['note']}", r)
                continue
            ratio = r["jump"] / r["allowed"] if r["allowed"] > 0 else (0.0 if r["jump"] == 0 else np.inf)
            tally.add("contract:" + r["f"], ratio)
            if not r["ok"]:
                V.add(f"contract:setExtrapolate-discontinuous-{r['f']}:{r['phase']}:{r['end']}",
                      ratio, f"postcondition of setExtrapolate: {r['f']} of the {r['phase']}-T "
                      f"phase jumps by {r['jump']:.3e} (allowed {r['allowed']:.1e}) across "
                      f"{r['end']}={r['Tb']!r}: {r['inside']!r} tabulated vs {r['outside']!r} "
                      f"extrapolated ({fam}, {route})", r)
        for st in ev["stale"]:
            V.add("contract:range-attribute-stale:" + st["attr"], 1.0,
                  f"after setExtrapolate {st['attr']}={st['value']!r} but the FreeEnergy object "
                  f"has {st['free_energy']!r}", st)

    # ------------------------------------------------------------------- temperatures
    for phase in ("high", "low"):
        d = info[phase]
        if "knots" not in d:
            continue
        sfx = SFX[phase]
        TMin, TMax, knots = d["TMin"], d["TMax"], d["knots"]
        pfun = getattr(th, "p" + sfx)
        exact_ok = "model" in d
        try:
            csq_end = {"below": float(getattr(th, "csq" + sfx)(TMin)),
                       "above": float(getattr(th, "csq" + sfx)(TMax))}
        except Exception as exc:      # noqa: BLE001
            V.add(f"thermo-function-raises:csq{sfx}:range-end", 1.0,
                  f"csq{sfx} raised at a range end: {exc!r}")
            continue
        d["csq_end"] = [csq_end["below"], csq_end["above"]]
        decided = set()
        def judge_point(T, tag):
            reg = region_of(T, TMin, TMax)
            q, err = report(th, sfx, T)
            mon["evaluations"] += 1
            if tag == "bnd":
                mon["boundary_evaluations"] += 1
            ctx = {"T": T, "phase": phase, "region": reg, "TMin": TMin, "TMax": TMax,
                   "T_over_Tb": T / (TMin if T < 0.5 * (TMin + TMax) else TMax)}
            if not _power_law_safe(d, T):
                mon["power_law_factor_overflow(not judged)"] += 1
                return
            if err is not None:
                V.add(f"thermo-function-raises:{err[0]}{sfx}:{reg}", 1.0,
                      f"{err[0]}{sfx}({T!r}) raised {err[1]} ({reg} the range "
                      f"[{TMin!r},{TMax!r}])", ctx)
                return
            bad = [nm for nm in NAMES if not math.isfinite(q[nm])]
            if bad:
                V.add(f"thermo-function-non-finite:{bad[0]}{sfx}:{reg}", 1.0,
                      f"{bad[0]}{sfx}({T!r}) = {q[bad[0]]!r} ({reg} the range)", {**ctx, **q})
                return
            decided.add(reg if tag != "bnd" or abs(ctx["T_over_Tb"] - 1) > 1e-3 else
                        ("TMin" if T < 0.5 * (TMin + TMax) else "TMax"))

            # ---- identities among reported functions ------------------------------
            def ident(name, got, want, scale, ulp=ULP_ID, extra=0.0):
                mon["identities"] += 1
                tol = ulp * EPS * scale + extra
                r = abs(got - want) / tol if tol > 0 else (0.0 if got == want else np.inf)
                tally.add("identity:" + name, r)
                if not r <= 1.0:
                    V.add(f"identity-{name}:{phase}:{reg}", r,
                          f"{phase}-T phase, T={T!r} ({reg}): reported {name.split('-')[0]}="
                          f"{got!r} but the reported functions give {want!r} "
                          f"(|diff|={abs(got - want):.3e}, tol {tol:.1e})", {**ctx, **q})
            ident("e-not-Tdp-minus-p", q["e"], T * q["dp"] - q["p"],
                  max(abs(T * q["dp"]), abs(q["p"])))
            ident("w-not-Tdp", q["w"], T * q["dp"], abs(T * q["dp"]))
            ident("de-not-Tddp", q["de"], T * q["ddp"], abs(T * q["ddp"]))
            ratio_csq = _div(q["dp"], T * q["ddp"])
            if reg == "inside":
                ident("csq-not-dp-over-de", q["csq"], ratio_csq, abs(ratio_csq))
            else:
                ident("csq-outside-not-range-end-value", q["csq"], csq_end[reg],
                      abs(csq_end[reg]))
                mu_b = 1.0 + _div(1.0, csq_end[reg])
                # pow(T,mu-1)/pow(T,mu-2): each exponent carries a rounding eps*|mu|, which
                # pow turns into a relative eps*|mu|*|ln T|; mu-1 = 1/csq to eps*mu/(mu-1)
                extra = 4 * EPS * (abs(mu_b) + 2) * (abs(math.log(T)) + 1) * abs(ratio_csq)
                ident("csq-outside-not-dp-over-de", q["csq"], ratio_csq, abs(ratio_csq),
                      ulp=16.0, extra=extra)

            # ---- reported derivatives are derivatives of reported p ---------------
            if reg == "inside":
                k = int(min(max(np.searchsorted(knots, T, side="right") - 1, 0), knots.size - 2))
                a_, b_ = float(max(knots[k], TMin)), float(min(knots[k + 1], TMax))
                if not (a_ <= T <= b_) or (b_ - a_) < 1e-7 * T:
                    mon["deriv_interval_too_narrow"] += 1
                else:
                    dpf, ddpf, tdp, tddp, resid = cubic_fit_derivatives(pfun, T, a_, b_)
                    tally.add("deriv_inside:cubic-fit-residual/(eps|p|)", resid)
                    if resid > 64:
                        classes.append("p-not-cubic-on-knot-interval(not judged)")
                    else:
                        mon["deriv_inside"] += 1
                        for nm, got, want, tol in (("dp", q["dp"], dpf, tdp + 8 * EPS * abs(dpf)),
                                                   ("ddp", q["ddp"], ddpf,
                                                    tddp + 8 * EPS * abs(ddpf))):
                            r = abs(got - want) / tol
                            tally.add("deriv_inside:" + nm, r)
                            if not r <= 1.0:
                                V.add(f"{nm}-not-derivative-of-p:{phase}:inside", r,
                                      f"{phase}-T phase, T={T!r} inside the range: reported "
                                      f"{nm}={got!r}, derivative of the reported p on the spline "
                                      f"piece [{a_!r},{b_!r}] is {want!r} (diff "
                                      f"{abs(got - want):.3e}, rounding bound {tol:.1e})",
                                      {**ctx, **q, "fit": want})
            else:
                try:
                    pl = power_law_derivatives(pfun, T, +1 if reg == "above" else -1)
                except (OverflowError, ZeroDivisionError, ValueError):
                    pl = None
                if pl is None:
                    mon["deriv_outside_undecided"] += 1
                else:
                    mon["deriv_outside"] += 1
                    for nm in ("dp", "ddp"):
                        tol = pl["rel_" + nm] * abs(pl[nm]) + 1e-300
                        r = abs(q[nm] - pl[nm]) / tol
                        tally.add("deriv_outside:" + nm, r)
                        if not r <= 1.0:
                            V.add(f"{nm}-not-derivative-of-p:{phase}:{reg}", r,
                                  f"{phase}-T phase, T={T!r} {reg} the range: reported {nm}="
                                  f"{q[nm]!r}, but the reported p at T, rT, r^2T is the power "
                                  f"law with mu={pl['mu']:.9g} whose {nm} is {pl[nm]!r} "
                                  f"(rel diff {abs(q[nm] - pl[nm]) / abs(pl[nm]):.3e}, tol "
                                  f"{pl['rel_' + nm]:.1e})", {**ctx, **q, "fit": pl})

            # ---- closed form inside the range ---------------------------------------
            if reg == "inside" and exact_ok:
                m = d["model"]
                ex = EX.eos(pot, phase, T)
                Vs = abs(float(ex["p"][0])) + pot.a * T ** 4
                tol_p = K_MODEL * (rtol * Vs + m.model(0, T)) + 64 * EPS * Vs
                tol_dp = K_MODEL * m.model(1, T) + 64 * EPS * (abs(float(ex["dp"][0])) + Vs / T)
                mon["exact_p"] += 1
                mon["exact_dp"] += 1
                r = abs(q["p"] - float(ex["p"][0])) / tol_p
                tb = "" if d["closest_abscissae"]["hmin_over_hmed"] >= 1e-6 else \
                    " (table with near-duplicate abscissae)"
                tally.add("exact:p" + tb, r)
                tally.add("exact:p rel.err" + tb, abs(q["p"] - float(ex["p"][0])) / Vs)
                if not r <= 1.0 and d["closest_abscissae"]["hmin_over_hmed"] < 1e-6:
                    pass        # reported with the dp observation below (same mechanism)
                elif not r <= 1.0:
                    V.add(f"pressure-not-minus-potential-at-minimum:{phase}", r,
                          f"{phase}-T phase, T={T!r} inside [{TMin!r},{TMax!r}]: p={q['p']!r} but "
                          f"-V at the closed-form minimum is {float(ex['p'][0])!r} (rel diff "
                          f"{abs(q['p'] - float(ex['p'][0])) / Vs:.3e}, tol {tol_p / Vs:.1e}; "
                          f"{fam}, {route})" + _stored_note(d),
                          {**ctx, **q, "exact": float(ex["p"][0]),
                           "stored_V_mismatch": d.get("stored_V_mismatch")})
                r = abs(q["dp"] - float(ex["dp"][0])) / tol_dp
                tally.add("exact:dp" + tb, r)
                tally.add("exact:ddp/model(not judged)" + tb, abs(q["ddp"] - float(ex["ddp"][0]))
                          / (K_MODEL * m.model(2, T) + 64 * EPS * Vs / T ** 2))
                if not r <= 1.0 and d["closest_abscissae"]["hmin_over_hmed"] < 1e-6:
                    ca = d["closest_abscissae"]
                    V.add(_near_dup_mech(d), r,
                          f"{phase}-T phase: the traced table has two abscissae {ca['hmin_over_hmed']:.1e}"
                          f" median steps apart at T={ca['at']!r}; at T={T!r} inside "
                          f"[{TMin!r},{TMax!r}] dp={q['dp']!r} vs closed form {float(ex['dp'][0])!r} "
                          f"(rel {abs(q['dp'] / float(ex['dp'][0]) - 1):.1e}, documented spline model "
                          f"{tol_dp / abs(float(ex['dp'][0])):.1e}); cs^2 at the range ends "
                          f"{d['csq_end']} vs closed form {d['csq_exact_at_ends']}, mu={d['mu']} "
                          f"({fam}, {route})",
                          {**ctx, **q, "exact": float(ex["dp"][0]), "closest_abscissae": ca,
                           "csq_end": d["csq_end"], "csq_exact": d["csq_exact_at_ends"]})
                elif not r <= 1.0:
                    V.add(f"dp-off-closed-form:{phase}", r,
                          f"{phase}-T phase, T={T!r} inside the range: dp={q['dp']!r}, closed form "
                          f"{float(ex['dp'][0])!r} (diff {abs(q['dp'] - float(ex['dp'][0])):.3e}, "
                          f"spline-error model {tol_dp:.1e})" + _stored_note(d),
                          {**ctx, **q, "exact": float(ex["dp"][0]),
                           "stored_V_mismatch": d.get("stored_V_mismatch")})
                tally.add("exact:ddp rel.err(not judged)" + tb,
                          abs(q["ddp"] - float(ex["ddp"][0])) / abs(float(ex["ddp"][0])))

        for T, tag in temperatures(rng, TMin, TMax, knots, case["nT"]):
            try:
                judge_point(T, tag)
            except Exception as exc:      # noqa: BLE001 - harness robustness under mutants
                mon["harness_point_errors"] += 1
                obs.setdefault("harness_point_error", repr(exc)[:200])
        for reg in sorted(decided):
            keys.append(f"{key0}:{phase}:{reg}")

    # --------------------------------------------------------------------- continuity
    if any("knots" in info[p] for p in info):
        rows = CT.continuity_residuals(th, names=("p", "dp", "ddp", "csq", "e", "w", "de"))
        for r in rows:
            if r["ok"] is None or "knots" not in info[r["phase"]]:
                continue
            if _end_overflows(info[r["phase"]], r["end"], V, mon, fam, route):
                continue
            if r["f"] == "raises":
                V.add(f"thermo-function-raises-at-range-end:{r['phase']}:{r['end']}", 1.0,
                      r["note"], r)
                continue
            mon["continuity"] += 1
            ratio = r["jump"] / r["allowed"] if r["allowed"] > 0 else (0.0 if r["jump"] == 0 else np.inf)
            tally.add("continuity:" + r["f"], ratio)
            tally.add("continuity:rel.jump " + r["f"],
                      r["jump"] / abs(r["inside"]) if r["inside"] else 0.0)
            classes.append(f"boundary:{r['phase']}:{r['end']}")
            if not r["ok"]:
                V.add(f"discontinuous-{r['f']}:{r['phase']}:{r['end']}", ratio,
                      f"{r['f']} of the {r['phase']}-T phase jumps by {r['jump']:.3e} (allowed "
                      f"{r['allowed']:.1e}) across {r['end']}={r['Tb']!r}: {r['inside']!r} at the "
                      f"range end vs {r['outside']!r} at T_b(1-+4eps) ({fam}, {route})", r)

    # -------------------------------------------------------------------------- alpha
    both = all("knots" in info[p] for p in ("high", "low"))
    if both:
        lo = max(info["high"]["TMin"], info["low"]["TMin"])
        hi = min(info["high"]["TMax"], info["low"]["TMax"])
        Ta = [Tn] + [float(t) for t in rng.uniform(0.03 * lo, 25 * hi, 30)]
        if hi > lo:
            Ta += [float(t) for t in rng.uniform(lo, hi, 6)]
        for T in Ta:
            if not all(_power_law_safe(info[ph], T) for ph in ("high", "low")):
                mon["power_law_factor_overflow(not judged)"] += 1
                continue
            try:
                al = float(th.alpha(T))
                r_ = {ph: report(th, SFX[ph], T)[0] for ph in ("high", "low")}
            except Exception as exc:      # noqa: BLE001
                V.add("thermo-function-raises:alpha", 1.0, f"alpha({T!r}) raised {exc!r}")
                continue
            H, L = r_["high"], r_["low"]
            if len(H) < 7 or len(L) < 7:
                continue
            mon["alpha_identity"] += 1
            want = _div(_div(H["e"] - L["e"] - _div(H["p"] - L["p"], L["csq"]), 3), H["w"])
            scale = _div(abs(H["e"]) + abs(L["e"]) + _div(abs(H["p"]) + abs(L["p"]), abs(L["csq"])),
                         3 * abs(H["w"]))
            r = _div(abs(al - want), ULP_ID * EPS * scale)
            tally.add("identity:alpha", r)
            if not r <= 1.0:
                V.add("identity-alpha-not-its-formula", r,
                      f"alpha({T!r})={al!r} but (eH-eL-(pH-pL)/csqL)/(3wH) of the reported "
                      f"functions is {want!r}", {"T": T, "high": H, "low": L})
            inside_both = lo <= T <= hi and all("model" in info[p] for p in ("high", "low"))
            if inside_both:
                tolq = {}
                exq = {}
                for ph in ("high", "low"):
                    m = info[ph]["model"]
                    ex = EX.eos(pot, ph, T)
                    Vs = abs(float(ex["p"][0])) + pot.a * T ** 4
                    exq[ph] = [float(ex[k][0]) for k in ("p", "dp", "ddp")]
                    tolq[ph] = [K_MODEL * (rtol * Vs + m.model(0, T)),
                                K_MODEL * m.model(1, T) + 64 * EPS * Vs / T,
                                K_MODEL * m.model(2, T) + 64 * EPS * Vs / T ** 2]
                base = [exq["high"][0], exq["high"][1], exq["low"][0], exq["low"][1],
                        exq["low"][2]]
                dq = [tolq["high"][0], tolq["high"][1], tolq["low"][0], tolq["low"][1],
                      tolq["low"][2]]
                a0 = float(EX.alpha_from(T, *base))
                tol = 1e-13 * max(abs(a0), 1e-3)
                for j in range(5):
                    dev = 0.0
                    for sgn in (-1.0, 1.0):
                        qq = list(base)
                        qq[j] += sgn * dq[j]
                        dev = max(dev, abs(float(EX.alpha_from(T, *qq)) - a0))
                    tol += dev
                mon["alpha_exact"] += 1
                r = abs(al - a0) / tol
                tally.add("exact:alpha", r)
                tally.add("exact:alpha rel.err", abs(al - a0) / max(abs(a0), 1e-300))
                dups = [info[ph] for ph in ("high", "low")
                        if info[ph]["closest_abscissae"]["hmin_over_hmed"] < 1e-6]
                if not r <= 1.0 and dups:
                    V.add(_near_dup_mech(dups[0]), r,
                          f"alpha({T!r})={al!r}, closed form {a0!r} (diff {abs(al - a0):.3e}, "
                          f"propagated tolerance {tol:.1e}) on a table with nearly coincident "
                          f"abscissae {dups[0]['closest_abscissae']} ({fam}, {route})",
                          {"T": T, "Tn": Tn, "alpha": al, "exact": a0})
                elif not r <= 1.0:
                    V.add("alpha-off-closed-form" + ("-at-Tn" if T == Tn else ""), r,
                          f"alpha({T!r})={al!r}, closed form {a0!r} (diff {abs(al - a0):.3e}, "
                          f"propagated tolerance {tol:.1e}; {fam}, {route})",
                          {"T": T, "Tn": Tn, "alpha": al, "exact": a0})
                if T == Tn:
                    keys.append(f"{key0}:alpha(Tn)")

    for ph in info:
        info[ph].pop("knots", None)
        info[ph].pop("model", None)
    obs["phases"] = info
    obs["ratios"] = tally.digest()
    if manager is not None:
        obs["vJ"] = float(getattr(manager.hydrodynamics, "vJ", float("nan")))
    return {"key": key0, "cls": sorted(set(classes)), "nontrivial": bool(keys), "obs": obs,
            "viol": V.list(), "mon": mon, "keys": keys}


def _stored_note(d):
    sm = d.get("stored_V_mismatch")
    if not sm:
        return ""
    return (f"; the table row T={sm['T']!r} stores V={sm['stored']!r} but the potential at the "
            f"tabulated point is {sm['V_at_row']!r} (rel {sm['rel']:.1e})")


def _end_overflows(d, end, V, mon, fam, route):
    """True when the extrapolation coefficients of this range end are formed from factors
    that over/underflow ((|mu|+2)|ln T_b| > 600): a = 3w/(mu T_b^mu) is then 0/inf/nan although
    a T^mu is O(w).  On a table with nearly coincident abscissae this is a consequence of the
    corrupted cs^2(T_b) (reported by the closed-form oracle) and only counted; on a regular
    table it is reported as its own mechanism."""
    i = 0 if end == "TMin" else 1
    mu, Tb = d["mu"][i], d[end]
    if math.isfinite(mu) and (abs(mu) + 2) * abs(math.log(Tb)) <= 600:
        return False
    if d["closest_abscissae"]["hmin_over_hmed"] < 1e-6:
        mon["power_law_factor_overflow(not judged)"] += 1
    else:
        V.add("extrapolation-coefficient-factors-overflow", 1.0,
              f"{end}={Tb!r}: mu={mu!r} makes pow(T_b, mu) over/underflow, so a, epsilon and the "
              f"extrapolated EOS are 0/inf/nan although cs^2(T_b)={1 / (mu - 1) if mu != 1 else float('nan')!r} "
              f"is finite ({fam}, {route})", {"mu": mu, "Tb": Tb, "end": end})
    return True


def _near_dup_mech(d):
    """Mechanism name for closed-form mismatches on a table with two abscissae closer than
    1e-6 median steps: at an end that was *requested* (not flagged as a spinodal) this is the
    tiny remainder step of RK45 onto t_bound; at a flagged end it is the collapse of the
    steps in front of a spinodal."""
    ca = d["closest_abscissae"]
    lo, hi = d["table"]
    at_lower = abs(ca["at"] - lo) < abs(ca["at"] - hi)
    flagged = d["flags"][0 if at_lower else 1]
    return ("near-coincident-table-abscissae-corrupt-derivatives" if not flagged else
            "collapsed-steps-at-spinodal-end-corrupt-derivatives")


def _coefficients(th):
    return [float(getattr(th, k + end + sfx)) for sfx in ("HighT", "LowT")
            for end in ("Min", "Max") for k in ("mu", "a", "epsilon")]


# ------------------------------------------------------------------------------ evidence
def summarize(results, tier):
    agg, ptr, units, mus, csq_ends, flags = {}, {}, [], [], [], {"spinodal-end": 0, "requested-end": 0}
    for r in results:
        obs = r.get("obs") or {}
        for k, v in (obs.get("ratios") or {}).items():
            a = agg.setdefault(k, {"n": 0, "max": 0.0, "medians": [], "p99": 0.0})
            a["n"] += v["n"]
            a["max"] = max(a["max"], v["max"])
            a["p99"] = max(a["p99"], v["p99"])
            a["medians"].append(v["median"])
        for ph, d in (obs.get("phases") or {}).items():
            ptr[d["P_trace"]] = ptr.get(d["P_trace"], 0) + 1
            if d["P_trace"] != "hop":
                mus += [m for m in d["mu"] if isinstance(m, float)]
                csq_ends += [c for c in d.get("csq_end", []) if isinstance(c, float)]
                for f in d["flags"]:
                    flags["spinodal-end" if f else "requested-end"] += 1
        if obs.get("spec"):
            units.append(obs["spec"].get("s", 1.0))
    hist = {k: {"n": v["n"], "max_over_tol": v["max"], "p99_over_tol(max over cases)": v["p99"],
                "median_over_tol(median of cases)": float(np.median(v["medians"]))}
            for k, v in sorted(agg.items())}
    out = {"residual_over_tolerance": hist, "P_trace_by_phase": ptr,
           "range_ends": flags}
    if units:
        out["unit_factor_range"] = [float(min(units)), float(max(units))]
    if mus:
        out["extrapolation_exponent_mu_range"] = [float(min(mus)), float(max(mus))]
    if csq_ends:
        out["csq_at_range_ends_range"] = [float(min(csq_ends)), float(max(csq_ends))]
    return out
