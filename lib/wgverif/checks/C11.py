"""C11 -- a traced phase is one genuine minimum, tabulated only where it exists.

Workload: direct calls of the real ``FreeEnergy.tracePhase`` (and of
``Thermodynamics.findCriticalTemperature`` on two traced phases) on the polynomial model
zoo (poly1: one field, poly2: two fields, poly2f: two fields of different scale with a
fold), whose phases, spinodal temperatures and critical temperature are known in closed
form.

Monitors (all harness side, nothing in /repo is touched):
  * ``table``      the finished interpolation table ``_interpolationPoints/_Values`` and the
                   ``[T, flag]`` pairs min/maxPossibleTemperature left behind by the trace;
  * ``minimiser``  a recording wrapper installed on ``effectivePotential.findLocalMinimum``
                   for the duration of the trace: (guess, T, result, tol) of every call, which
                   is what attributes a branch hop to the re-minimisation step and an
                   off-minimum table to scipy's absolute gradient tolerance;
  * ``ode``        scipy.integrate.RK45 (resolved by WallGo.freeEnergy at call time) is
                   swapped for a logging subclass during the trace: every step of the upward
                   and of the downward integration, so that "every accepted step is a row"
                   can be decided even when tracePhase ends in an assertion;
  * ``interp``     the real ``FreeEnergy.__call__`` at 200 random temperatures inside the
                   advertised range;
  * ``tc``         the value returned by the real ``findCriticalTemperature``.

Oracles: closed forms only (wgverif.oracles.c11_branches + models.potentials); the cubic
spline *model* term of the interpolation tolerance is the error of scipy's CubicSpline on
the exact closed-form values at the very same knots (the documented "spline error" of the
table the user asked for, DESIGN 2.3-3), never the table itself.

Ends of an existence interval come in two kinds (c11_branches.end_types).  *Hard* ends
(fold of the poly1 broken phase at T1; sub-critical transverse instability of a poly2
phase): the continuous family of minima stops -- these carry the property's "stops before
and flags" clause.  *Soft* ends (vev -> 0 continuously into a symmetric minimum; the
transcritical exchange of the poly1 symmetric phase with phi_-(T) at T0): a minimum
continues continuously on another closed form, so neither stopping with the flag nor
tracing through is called a violation; rows are judged against the continued branch.

History dimension: after the first call every traced FreeEnergy is traced again once or
twice (same / finer dT, same / wider / narrower request or exactly the remembered end,
paranoid kept or toggled) and *every* call is judged by the same table oracle.  What
tracePhase does on an object that has been traced before (read off the code, and the
reason the oracle is what it is): the request is clipped to the range the object
advertised before the call (2 dT_prev inside the previous table); the new table must span
exactly that effective range (coverage up to 4 ulp, the remembered end is a float sum);
nothing new can be learnt about the ends, so
  * an end whose raw request still contains the spinodal the previous call stopped at must
    stay flagged                      (spinodal-end-flag-lost-on-retrace),
  * an end whose raw request lies inside the remembered range is covered and must not be
    flagged, whatever the flag said before
                                      (end-flag-stale-after-retrace-over-covered-range),
  * a widening that the clipping cuts off (first request ended inside, this one reaches
    past the spinodal) and a request between the remembered end and a known spinodal are
    recorded, not judged,
  * with identical settings the abscissae shared with the previous table carry
    bit-identical values                (retrace-with-same-settings-changes-rows).
Step-commensurate ends: extra cases put a requested end -1/0/+1/+2/+3 ulp around a step of
the tracer (positions from a scratch trace of T_start -+ 12 dT, achievement read off the
steps of the real trace), so that the last RK45 step is a rounding remainder; an end ulps
short of the request *and* flagged is reported as
rounding-remainder-before-range-end-flagged-as-disappearance.

Per-field scales (added after seeded change C10c, which the single-scale workload could not
see): the user's ``fieldValueVariationScale`` may be a list, and tracePhase measures its
"the re-minimisation moved the point to another phase" test against one of them.  Extra
cases run the two-scale fold model poly2f (models.potentials.Poly2F: a spectator field u
with vev v next to the field p that distinguishes the phases; low phase ends in a *fold*,
so beyond it the minimiser really does run to the other phase -- unlike poly2, whose
symmetry-protected saddle keeps the point in place) with scales in a ratio 10..100 in both
assignments: "A" v >> p, small scale on the field that jumps; "B" weak fold, the large
scale (zero-temperature vev of p) on the field that jumps, the small one on u.  The
requested range mostly runs past the fold and the mass-squared test is stressed: rTol up
to 1e-4 (kept a factor 30 below the barrier gradient), dT up to 0.3 of the interval,
paranoid on/off, ``spinodal`` on/off.  No new oracle: the table / range / flag oracle
above decides.  The minimiser monitor also yields the workload evidence the floors ask
for: traces in which a re-minimisation moved the point by more than a tenth of the
smallest and less than a tenth of the largest scale (``hier:jump-between-scales``).
With ``spinodal=False`` the caller has switched the mass-squared test off; what remains is
the gradient control, so inside the slack zone before the fold the Hessian tolerance is
the curvature a point with |grad V| <= g can have there (c11_branches.fold_geometry).
A hop whose first off-branch row was reached by an RK45 step that moved the point further
than the re-minimisation after it (ODE monitor: |y - y_old|) is reported under its own
name, hop-across-spinodal-completed-by-reminimisation-smaller-than-ode-step.

Deviations from DESIGN C11, each forced by what the unchanged tree showed:
  * the T slack K*rTol*T is kept for folds but has a floor rTol >= 1e-6, is scaled by
    (T0/T_end)^3 (tolerances in tracePhase are relative to the *starting* temperature) and
    uses the exponent 2/3 resp. 1/2 for sub-critical resp. soft ends (imperfect
    bifurcation); see judge_table;
  * the interpolated free energy is compared with tolerance K*rTol*|V| + 2*(spline model).
"""
from __future__ import annotations

import collections
import math

import numpy as np

from wgverif import env  # noqa: F401

PROPERTY = "C11"
RULE = ("tracePhase cases: family poly1|poly2 x phase low|high x unit factor {1e-2,1,1e2} x "
        "field relabelling (sign, permutation, translation) x start temperature uniform in "
        "the working interval (existence interval, capped where it is unbounded) x each "
        "requested end in {deep inside, within 0.05..5 dT of the spinodal, past the "
        "spinodal} x dT log-uniform in [1e-3, 0.3] of the interval x rTol in "
        "{1e-4,1e-6,1e-8} x paranoid on/off x first-step option x starting-guess "
        "perturbation; each such object is then traced again once or twice (dT x {1,1,.5,.25}, "
        "each end same / wider by 0.3..20 dT / narrower to 35..95 % of the remembered range / "
        "exactly the remembered end, paranoid kept or toggled), every call judged.  Extra "
        "cases: both ends deep inside, one or both placed -1..+3 ulp around a tracer step.  "
        "Per-field-scale cases: family poly2f (two fields of different natural scale, fold "
        "end) x assignment A (v = 12..100 p, scales (v, {.5,1} p)) | B (weak fold, scales "
        "(p(0)/10..100, p(0))) x unit {1,1e2} x relabelling x low phase x upper end "
        "{past 75 %, near 15 %, deep 10 %} x dT log-uniform in [1e-2, 0.3] of the interval x "
        "rTol in {1e-4,1e-5,1e-5,1e-6} capped at 1/30 of the barrier gradient x paranoid on/off "
        "x spinodal on (60 %)/off.  "
        "findCriticalTemperature cases: both phases traced inside their "
        "coexistence interval around T_c.  Non-trivial: a decided trace whose requested "
        "range reaches within 5 dT of, or beyond, a spinodal (resp. a decided T_c); "
        "distinct by (family, phase, unit, end modes, rTol, paranoid, parameter seed).")
ASSUMPTIONS = [
    "closed-form phases / spinodals / T_c of the polynomial zoo evaluated in float64 are the "
    "reference",
    "the potential is a polynomial of total degree 4, for which WallGo's 4th-order finite "
    "differences are exact up to rounding; that rounding bound is the Hessian tolerance",
    "the starting temperature lies strictly inside the requested range (as in "
    "WallGoManager.initTemperatureRange)",
    "phaseTracerFirstStep is passed as scipy takes it (an absolute temperature step); the "
    "docstring's 'in units of dT' reading is not exercised",
    "requested ranges whose end lies within the slack of a spinodal (judge_table) are run "
    "but the presence/absence of the flag is not judged there; the same holds for every "
    "request that reaches a soft end",
    "poly2 draws are restricted to sub-critical transverse instabilities (lh*ls < lhs^2/4)",
    "poly2f (per-field-scale cases): parameters with the rounding noise of V at most 10 x "
    "that of a*T^4 and rTol*T0^3 at most 1/30 of the largest gradient between the two "
    "minima at the fold (below that a gradient tolerance in units of T0^3 does not resolve "
    "the barrier; observed there: rows scattered between the phases at rTol = 1e-4); unit "
    "factors 1 and 100 only -- at unit 0.01 scipy's absolute forward-difference step "
    "(1.49e-8) inside findLocalMinimum leaves a phantom gradient l1*v^2*h >= 3e-5*T0^3 along "
    "the stiff field u, BFGS ends in 'precision loss' and rows pass the fold by up to 2.2 x "
    "the slack (8 of 1460 such traces while probing; recorded here, not exercised)",
    "spinodal=False is exercised on poly2f only: past the transverse instability of a poly2 "
    "phase the symmetric saddle has an exactly vanishing gradient, so with the caller's "
    "mass-squared test off nothing in tracePhase can notice it (taken as the documented "
    "meaning of the option, not judged)",
    "a further tracePhase call on the same object is judged against the request clipped to "
    "the range the object advertised before the call (tracePhase's 'maximum temperature "
    "range'); that a re-trace cannot widen the range is taken as designed, not judged; a "
    "further call is made only when the starting temperature lies strictly inside the "
    "advertised range",
]
CASE_TIMEOUT = 300
CHUNK = 2
K_TOL = 10.0          # DESIGN 2.3-3 safety factor on documented accuracy models
N_INTERP = 200

# history / step-commensurate / per-field-scale floors: ~55 % of the smallest count over quick
# seeds 0..4 (0..7 for hier:*) resp. thorough seed 0 on the unchanged tree
FLOORS = {
    "quick": {"distinct_nontrivial": 30,
              "mon": {"table_rows": 3000, "minimiser_calls": 1000, "interp_points": 4000,
                      "ode_steps": 3000,
                      "traces_decided": 60, "tc_decided": 6,
                      "retraces_decided": 55, "retrace_rows_compared": 1500, "ulpstep_ends": 6,
                      "hier_traces_decided": 30, "hier_jumps_between_scales": 13},
              "cls": {"end:past": 25, "end:near": 12, "judged:hi:past": 8,
                      "judged:hi:inside": 25, "paranoid": 30, "nonparanoid": 20,
                      "unit:0.01": 15, "unit:1": 15, "unit:100": 15, "guess:int-dtype": 4,
                      # both directions of the flag on a further call of the same object
                      "retrace:hi:past:flag-must-persist": 3,
                      "retrace:hi:covered:was-flagged": 3,
                      "retrace:hi:covered:was-unflagged": 8, "retrace:lo:covered:was-unflagged": 10,
                      "retrace:dT:finer": 30, "retrace:dT:same": 20,
                      "retrace:paranoid:toggle": 18, "retrace:paranoid:same": 25,
                      "retrace:hi:same": 20, "retrace:lo:same": 20, "retrace:hi:wider": 10,
                      "retrace:lo:wider": 10, "retrace:hi:narrower": 8, "retrace:lo:narrower": 8,
                      "retrace:hi:edge": 4, "retrace:lo:edge": 5,
                      # requested end a few ulp beyond a tracer step
                      "ulpstep:lo:beyond": 3, "ulpstep:hi:beyond": 1,
                      "ulpstep:lo:beyond:remainder-below-1e-16-T0": 1,
                      # per-field scales: both assignments, both index orders, range past the
                      # fold, mass-squared test on and off, and -- the point of the workload --
                      # traces in which a re-minimisation moved the point by an amount between
                      # a tenth of the smallest and a tenth of the largest scale
                      "hier:A": 15, "hier:B": 11, "hier:A:past": 10, "hier:B:past": 8,
                      "hier:spinodal-on": 14, "hier:spinodal-off": 11, "hier:rTol:1e-05": 15,
                      "hier:small-scale-on-code-field-0": 10,
                      "hier:small-scale-on-code-field-1": 14,
                      "hier:jump-between-scales": 13,
                      "hier:jump-between-scales:paranoid": 5,
                      "hier:jump-between-scales:nonparanoid": 7,
                      "hier:jump-between-scales:spinodal-on": 4,
                      "hier:jump-between-scales:spinodal-off": 8}},
    "thorough": {"distinct_nontrivial": 800,
                 "mon": {"table_rows": 100000, "minimiser_calls": 30000, "ode_steps": 100000,
                         "interp_points": 150000, "traces_decided": 1600, "tc_decided": 150,
                         "retraces_decided": 1400, "retrace_rows_compared": 60000,
                         "ulpstep_ends": 120,
                         "hier_traces_decided": 480, "hier_jumps_between_scales": 250},
                 "cls": {"end:past": 600, "end:near": 300, "judged:hi:past": 200,
                         "judged:hi:inside": 600, "judged:lo:past": 10, "paranoid": 800,
                         "nonparanoid": 500, "unit:0.01": 400, "unit:1": 400,
                         "unit:100": 400, "guess:int-dtype": 80,
                         "retrace:hi:past:flag-must-persist": 150,
                         "retrace:lo:past:flag-must-persist": 20,
                         "retrace:hi:covered:was-flagged": 60, "retrace:lo:covered:was-flagged": 20,
                         "retrace:hi:covered:was-unflagged": 300,
                         "retrace:lo:covered:was-unflagged": 350,
                         "retrace:dT:finer": 700, "retrace:dT:same": 550,
                         "retrace:paranoid:toggle": 500, "retrace:paranoid:same": 700,
                         "retrace:hi:same": 500, "retrace:lo:same": 500, "retrace:hi:wider": 300,
                         "retrace:lo:wider": 300, "retrace:hi:narrower": 250,
                         "retrace:lo:narrower": 300, "retrace:hi:edge": 100, "retrace:lo:edge": 100,
                         "retrace:hi:edge:was-flagged": 20,
                         "ulpstep:lo:beyond": 60, "ulpstep:hi:beyond": 30,
                         "ulpstep:lo:beyond:remainder-below-1e-16-T0": 8,
                         "hier:A": 250, "hier:B": 220, "hier:A:past": 200, "hier:B:past": 180,
                         "hier:spinodal-on": 280, "hier:spinodal-off": 200,
                         "hier:rTol:1e-05": 230, "hier:small-scale-on-code-field-0": 230,
                         "hier:small-scale-on-code-field-1": 250,
                         "hier:jump-between-scales": 250,
                         "hier:jump-between-scales:paranoid": 130,
                         "hier:jump-between-scales:nonparanoid": 115,
                         "hier:jump-between-scales:spinodal-on": 85,
                         "hier:jump-between-scales:spinodal-off": 160}},
}

EPS = float(np.finfo(float).eps)


def worker_init():
    env.import_wallgo()


# ------------------------------------------------------------------------- generators
def _rand_affine(rng, n):
    r = rng.random()
    if r < 0.35:
        return {"perm": None, "signs": None, "shift": None}
    perm = list(range(n))
    if n == 2 and rng.random() < 0.5:
        perm = [1, 0]
    signs = [float(rng.choice([-1.0, 1.0])) for _ in range(n)]
    shift = None
    if rng.random() < 0.6:
        shift = [float(rng.uniform(-2, 2)) for _ in range(n)]   # in units of s
    return {"perm": perm, "signs": signs, "shift": shift}


def _rand_poly1(rng):
    for _ in range(1000):
        g = float(rng.choice([10, 20, 40, 80]))
        lam = float(rng.uniform(0.05, 0.25))
        E = float(rng.uniform(0.03, 0.12))
        D = float(rng.uniform(0.2, 0.9))
        if 8 * lam * D - 9 * E * E <= 0.25 * 8 * lam * D or lam * D - E * E <= 0:
            continue          # keep T1/T0 below 2 and T_c finite
        return {"family": "poly1", "a": g * math.pi ** 2 / 90, "D": D, "E": E, "lam": lam,
                "T0": 1.0}
    raise RuntimeError("poly1 draw failed")


def _rand_poly2(rng, want_lower=False):
    """Two-step Z2 model with both phases coexisting around T_c and a *sub-critical*
    transverse instability (lh*ls < lhs^2/4), so that an unstable end is a hard end.
    Self-contained draw (does not depend on the zoo's random_* helpers)."""
    from wgverif.models import potentials as P
    for _ in range(200000):
        g = float(rng.choice([20, 40, 80, 106.75]))
        lh, ls = float(rng.uniform(0.1, 0.3)), float(rng.uniform(0.1, 1.0))
        lhs = float(rng.uniform(0.8, 3.0))
        ch, cs = float(rng.uniform(0.15, 0.5)), float(rng.uniform(0.15, 0.5))
        mus2 = float(rng.uniform(0.3, 1.6))
        if lhs * lhs < 4.4 * lh * ls:
            continue
        spec = {"family": "poly2", "a": g * math.pi ** 2 / 90, "muh2": 1.0, "ch": ch, "lh": lh,
                "mus2": mus2, "cs": cs, "ls": ls, "lhs": lhs}
        pot = P.build_potential({**spec, "s": 1.0})
        Tc = pot.Tc()
        if not np.isfinite(Tc):
            continue
        lo_l, hi_l = pot.exists("low")
        lo_h, hi_h = pot.exists("high")
        if not (lo_l < 0.8 * Tc and hi_l > 1.15 * Tc and lo_h < 0.8 * Tc and hi_h > 1.15 * Tc):
            continue
        if not pot.V_phase("low", 0.9 * Tc) < pot.V_phase("high", 0.9 * Tc):
            continue
        if want_lower and not (0.2 * Tc < lo_h):
            continue          # high phase must lose stability at a positive temperature
        return spec
    raise RuntimeError("poly2 draw failed")


def _rand_poly2f(rng, order):
    """Two fields of different natural scale with a fold end (models.potentials.Poly2F).
    Returns (spec, per-field scales in physical order (u, p), in units of s).

    order "A": v = 12..100 x the vev of p at T_c; scales (v, {0.5,1} x p(T_c)) -- the small
               scale sits on the field that distinguishes the phases (the one that jumps at
               the fold), the large one on the spectator u;
    order "B": a weak fold, p(T=0) = 12..25 x p(fold); scales (p(0)/ratio, p(0)) with ratio
               10..100 -- the large scale (the zero-temperature vev) sits on the field that
               jumps, the small one on u, which moves by O(kap p^2/(l1 v)) only.
    In both the jump of the minimiser across the fold (~ p(fold)) lies between a tenth of
    the smaller and a tenth of the larger scale."""
    from wgverif.models import potentials as P
    for _ in range(10000):
        g = float(rng.choice([10, 20, 40, 80]))
        if order == "A":
            lamEff = float(rng.uniform(0.05, 0.25))
            D = float(rng.uniform(0.2, 0.9))
        else:
            # small quartic, large thermal mass: a zero-temperature vev of 5..13 T0, so that
            # the vev at the (weak) fold is still 0.25..1 T and the barrier resolvable
            lamEff = float(rng.uniform(0.01, 0.04))
            D = float(rng.uniform(0.5, 0.9))
        l1 = float(rng.uniform(0.05, 0.3))
        kap = float(rng.uniform(0.002, 0.03) * rng.choice([-1.0, 1.0]))
        if order == "A":
            E = float(rng.uniform(0.03, 0.12))
        else:
            rho = float(rng.uniform(12.0, 20.0))          # p(T=0)/p(fold), T1 ~ T0
            E = (2.0 / 3.0) * math.sqrt(2 * D * lamEff) / rho
        if 8 * lamEff * D - 9 * E * E <= 0.25 * 8 * lamEff * D or lamEff * D - E * E <= 0:
            continue          # keep T1/T0 below 2 and T_c finite (as for poly1)
        lam = lamEff + 4 * kap * kap / l1
        Tc = math.sqrt(lamEff * D / (lamEff * D - E * E))
        p_ref = 2 * E * Tc / lamEff                       # p_+(T_c)
        p_zero = math.sqrt(2 * D / lamEff)                # p_+(0), T0 = 1
        if order == "A":
            v = p_ref * float(10 ** rng.uniform(math.log10(12), 2))
            scales = [v, float(rng.choice([0.5, 1.0])) * p_ref]
        else:
            v = p_zero * float(rng.uniform(0.5, 2.0))
            scales = [p_zero / float(10 ** rng.uniform(1, 2)), p_zero]
        # keep the model well conditioned for scipy's forward-difference gradients: the
        # rounding noise of V (cancellation u^2 - v^2, c11_branches.fold_geometry) at most
        # 10 x that of the thermal term a T^4
        T1 = math.sqrt(8 * lamEff * D / (8 * lamEff * D - 9 * E * E))
        p_fold = 3 * E * T1 / (2 * lamEff)
        if 2 * abs(kap) * p_fold ** 2 * v ** 2 > 10.0 * (g * math.pi ** 2 / 90) * T1 ** 4:
            continue
        # largest gradient of the reduced potential between the two minima at the fold,
        # V' = lamEff p (p - p_fold)^2 at T1, in units of T1^3: the tracer's gradient
        # tolerances rTol*T0^3 mean something only well below it
        g_bar = (4.0 / 27.0) * lamEff * (p_fold / T1) ** 3
        if g_bar < 30 * 1e-6:
            continue
        spec = {"family": "poly2f", "a": g * math.pi ** 2 / 90, "l1": l1, "v": v, "kap": kap,
                "D": D, "E": E, "lam": lam, "T0": 1.0}
        try:
            P.build_potential({**spec, "s": 1.0})
        except ValueError:
            continue
        return spec, scales, g_bar
    raise RuntimeError("poly2f draw failed")


def _draw_hier_case(rng, i):
    """Hierarchical per-field fieldValueVariationScale (ratio 10..100, both assignments) on
    the two-scale fold model, low phase, requested range mostly past the fold, with the
    mass-squared test of tracePhase stressed: coarse rTol, large dT, spinodal=False."""
    order = "A" if rng.random() < 0.55 else "B"
    spec, scales, g_bar = _rand_poly2f(rng, order)
    # coarse tolerances stress the mass-squared test (the solver steps over the fold), but
    # stay a factor 30 below the barrier gradient
    rtols = [r for r in (1e-4, 1e-5, 1e-5, 1e-6) if 30 * r <= g_bar]
    # unit factors 1 and 100 only: see ASSUMPTIONS (scipy's absolute forward-difference step
    # along the stiff field u at unit 0.01)
    spec["s"] = float(rng.choice([1.0, 1e2]))
    spec.update(_rand_affine(rng, 2))
    r = rng.random()
    hi = ({"mode": "past", "x": float(10 ** rng.uniform(-0.5, 1.3))} if r < 0.75 else
          {"mode": "near", "x": float(10 ** rng.uniform(math.log10(0.05), math.log10(5)))}
          if r < 0.9 else {"mode": "deep", "x": float(rng.uniform(0.3, 0.9))})
    fs = rng.random()
    gp = rng.random()
    return {
        "kind": "trace", "i": i, "spec": spec, "phase": "low",
        "hier": {"order": order, "scales_phys": [float(x) for x in scales],
                 "barrier_gradient_over_T1cubed": g_bar},
        "spinodal": bool(rng.random() < 0.6),
        "u0": float(rng.uniform(0.3, 0.97)),
        "dT_frac": float(10 ** rng.uniform(-2, math.log10(0.3))),
        "rTol": float(rng.choice(rtols)),
        "paranoid": bool(rng.random() < 0.5),
        "first": None if fs < 0.7 else float(rng.choice([1e-2, 0.1, 0.5])),
        "lo": {"mode": "deep", "x": float(rng.uniform(0.1, 0.9))}, "hi": hi,
        "guess_pert": 0.0 if gp < 0.5 else float(rng.choice([1e-4, 1e-3])),
        "tscale": float(rng.choice([0.3, 1.0, 3.0])),
        "fscale": 1.0,
        "retrace": [],
        "s": int(rng.integers(1 << 30)),
    }


def _end_mode(rng, lower=False):
    r = rng.random()
    if lower and r < 0.08:
        return {"mode": "onestep", "x": float(rng.uniform(0.2, 1.0))}
    r = rng.random()
    if r < 0.45:
        return {"mode": "past", "x": float(10 ** rng.uniform(-2, 1.3))}     # x*dT beyond
    if r < 0.8:
        return {"mode": "near", "x": float(10 ** rng.uniform(math.log10(0.05), math.log10(5)))}
    return {"mode": "deep", "x": float(rng.uniform(0.1, 0.9))}


def _retrace_spec(rng, first_modes):
    """One further tracePhase call on the same FreeEnergy object (history dimension).
    first_modes: the end modes of the first call; an end first requested past the spinodal
    is more often asked for again (same / wider), which is where a flag can get lost."""
    def side(first_mode):
        past = first_mode == "past"
        r = rng.random()
        if r < 0.4:
            return {"mode": "same"}
        if r < (0.62 if past else 0.65):
            return {"mode": "wider", "x": float(10 ** rng.uniform(-0.5, 1.3))}    # x*dT further out
        if r < (0.78 if past else 0.72):
            return {"mode": "edge"}            # exactly the remembered (advertised) end
        return {"mode": "narrower", "f": float(rng.uniform(0.35, 0.95))}          # of the remembered range
    return {"dT_mul": float(rng.choice([1.0, 1.0, 0.5, 0.25])),
            "paranoid": "same" if rng.random() < 0.6 else "toggle",
            "lo": side(first_modes[0]), "hi": side(first_modes[1])}


def _draw_trace_case(rng, i):
    fam = "poly1" if rng.random() < 0.5 else "poly2"
    spec = _rand_poly1(rng) if fam == "poly1" else _rand_poly2(rng, rng.random() < 0.5)
    spec["s"] = float(rng.choice([1e-2, 1.0, 1e2]))
    spec.update(_rand_affine(rng, 1 if fam == "poly1" else 2))
    fs = rng.random()
    first = None if fs < 0.6 else float(rng.choice([1e-3, 1e-2, 0.1, 0.5]))
    gp = rng.random()
    return {
        "kind": "trace", "i": i, "spec": spec,
        "phase": "low" if rng.random() < 0.55 else "high",
        "u0": float(rng.uniform(0.03, 0.97)),
        "dT_frac": float(10 ** rng.uniform(-3, math.log10(0.3))),
        "rTol": float(rng.choice([1e-4, 1e-6, 1e-8])),
        "paranoid": bool(rng.random() < 0.6),
        "first": first,
        "lo": _end_mode(rng, lower=True), "hi": _end_mode(rng),
        "guess_pert": 0.0 if gp < 0.4 else float(rng.choice([1e-4, 1e-3, 1e-2])),
        "tscale": float(rng.choice([0.3, 1.0, 3.0])),
        "fscale": float(rng.choice([0.1, 0.3, 1.0])),
        "s": int(rng.integers(1 << 30)),
    }


def generate(tier, seed):
    rng = np.random.default_rng(11000 + int(seed))
    # separate streams: the history dimension and the step-commensurate ends do not disturb
    # the first-call population
    rng_h = np.random.default_rng(11500 + int(seed))
    rng_u = np.random.default_rng(11700 + int(seed))
    rng_s = np.random.default_rng(11900 + int(seed))
    n_tr, n_tc, n_ulp = (110, 14, 20) if tier == "quick" else (2600, 300, 300)
    n_hier = 56 if tier == "quick" else 900
    cases = []
    for i in range(n_tr):
        cases.append(_draw_trace_case(rng, i))
        # history: one or two further calls on the same object
        n_h = 1 if rng_h.random() < 0.7 else 2
        cases[-1]["retrace"] = [_retrace_spec(rng_h, (cases[-1]["lo"]["mode"], cases[-1]["hi"]["mode"]))
                                for _ in range(n_h)]
    for i in range(n_tc):
        fam = "poly1" if rng.random() < 0.5 else "poly2"
        spec = _rand_poly1(rng) if fam == "poly1" else _rand_poly2(rng)
        spec["s"] = float(rng.choice([1e-2, 1.0, 1e2]))
        spec.update(_rand_affine(rng, 1 if fam == "poly1" else 2))
        cases.append({
            "kind": "tc", "i": n_tr + i, "spec": spec,
            "dT_frac": float(10 ** rng.uniform(-2.5, -1.0)),
            "rTol": float(rng.choice([1e-4, 1e-6, 1e-8])),
            "paranoid": bool(rng.random() < 0.5),
            "tn": float(rng.uniform(0.15, 0.85)),
            "cover": [float(rng.uniform(0.3, 0.9)), float(rng.uniform(0.3, 0.9))],
            # the second phase is traced over a sub-range (fractions of the first one's
            # distance from T_c), so that the coexistence range is a genuine intersection
            "cover2": [float(rng.uniform(0.45, 1.0)), float(rng.uniform(0.45, 1.0))],
            "narrow": "low" if rng.random() < 0.5 else "high",
            "tscale": float(rng.choice([0.3, 1.0, 3.0])),
            "fscale": float(rng.choice([0.1, 0.3, 1.0])),
            "s": int(rng.integers(1 << 30)),
        })
    # requested ends a few ulp around a step of the tracer (T_start -+ ramp-up -+ k dT): the
    # last RK45 step onto the end is then a rounding remainder.  Both ends well inside the
    # existence interval, so neither may be flagged and the table must reach them.
    for i in range(n_ulp):
        c = _draw_trace_case(rng_u, n_tr + n_tc + i)
        c["u0"] = float(rng_u.uniform(0.35, 0.9))
        c["dT_frac"] = float(10 ** rng_u.uniform(-2.5, -1.3))
        c["guess_pert"] = 0.0
        sides = ("lo", "hi") if rng_u.random() < 0.4 else (("lo",) if rng_u.random() < 0.75 else ("hi",))
        for sd in sides:
            c[sd] = {"mode": "ulpstep", "ulps": int(rng_u.choice([-1, 0, 1, 1, 1, 2, 3])),
                     "x": float(rng_u.random())}
        for sd in ("lo", "hi"):
            if c[sd]["mode"] not in ("ulpstep", "deep"):
                c[sd] = {"mode": "deep", "x": float(rng_u.uniform(0.3, 0.8))}
        c["retrace"] = []
        cases.append(c)
    # hierarchical per-field scales on the two-scale fold model (own stream, appended last so
    # that the populations above are what they were)
    for i in range(n_hier):
        cases.append(_draw_hier_case(rng_s, n_tr + n_tc + n_ulp + i))
    return cases


# ----------------------------------------------------------------------------- set-up
def _build(case):
    import WallGo
    from wgverif.models import potentials as P
    pot = P.build_potential(case["spec"])
    fam = case["spec"]["family"]
    if fam in ("poly1", "poly2f"):
        w0 = pot.T1() - pot.T0
        tref = pot.Tc()
    else:
        tref = pot.Tc()
        w0 = 0.1 * tref
    fref = float(pot.field_scale(tref))
    if case.get("hier"):
        # per-field scales, given for the physical fields (u, p) in units of s; code field i
        # is +-phi_perm[i] + b_i, so it gets the scale of phi_perm[i].  The temperature scale
        # is not tied to the (possibly very narrow) interval T1 - T0 of a weak fold.
        phys = np.asarray(case["hier"]["scales_phys"], dtype=float) * pot.s
        perm = case["spec"].get("perm") or [0, 1]
        pot.configureDerivatives(WallGo.VeffDerivativeSettings(
            temperatureVariationScale=float(case["tscale"] * max(w0, 0.03 * pot.T0)),
            fieldValueVariationScale=[float(phys[perm[0]]), float(phys[perm[1]])]))
        return pot, w0, tref, fref
    pot.configureDerivatives(WallGo.VeffDerivativeSettings(
        temperatureVariationScale=float(case["tscale"] * w0),
        fieldValueVariationScale=float(case["fscale"] * fref)))
    return pot, w0, tref, fref


def _working_interval(pot, phase):
    from wgverif.oracles import c11_branches as B
    ends = B.end_types(pot, phase)
    (tlo, klo), (thi, khi) = ends["lo"], ends["hi"]
    if type(pot).__name__ in ("Poly1", "Poly2F"):
        w0 = pot.T1() - pot.T0
        a, b = (pot.T0, pot.T0 + 2 * w0) if phase == "high" else (pot.T1() - 2 * w0, pot.T1())
    else:
        b = thi
        a = tlo if klo != "none" else 0.5 * thi
    return a, b, ends


class MinimiserRecorder:
    """Recording wrapper around the bound EffectivePotential.findLocalMinimum."""

    def __init__(self, pot):
        self.pot = pot
        self.orig = pot.findLocalMinimum          # bound method of the real class
        self.calls = []

    def __call__(self, initialGuess, temperature, tol=None):
        out = self.orig(initialGuess, temperature, tol=tol)
        try:
            g = np.array(np.asarray(initialGuess, dtype=float)).reshape(-1, self.pot.fieldCount)
            r = np.array(np.asarray(out[0], dtype=float)).reshape(-1, self.pot.fieldCount)
            t = np.atleast_1d(np.asarray(temperature, dtype=float))
            if g.shape[0] == 1 and r.shape[0] == 1 and t.size == 1:
                self.calls.append((float(t[0]), g[0].copy(), r[0].copy(), tol))
        except Exception:
            pass
        return out

    def install(self):
        """Shadow the bound method on the instance and swap scipy.integrate.RK45 (the name
        WallGo.freeEnergy resolves at call time through its ``scipyint`` module alias) for a
        subclass that logs every step: (integration index, t after the step, status)."""
        import scipy.integrate as si
        self.pot.findLocalMinimum = self          # instance attribute shadows the method
        self.steps = []                            # [(integration, t, status)]
        self.moves = {}                # t after the step -> (|y - y_old| in code fields, t_old)
        self.integrations = 0
        recorder = self
        base = si.RK45
        self._rk45 = base

        class RecordingRK45(base):
            def __init__(self, *a, **k):
                super().__init__(*a, **k)
                self._wg_id = recorder.integrations
                recorder.integrations += 1

            def step(self):
                out = super().step()
                recorder.steps.append((self._wg_id, float(self.t), self.status))
                if self.t_old is not None and self.t != self.t_old:
                    try:
                        recorder.moves[float(self.t)] = (float(np.linalg.norm(
                            np.asarray(self.y, dtype=float) - np.asarray(self.y_old, dtype=float))),
                            float(self.t_old))
                    except Exception:
                        pass
                return out

        si.RK45 = RecordingRK45

    def remove(self):
        import scipy.integrate as si
        if getattr(self, "_rk45", None) is not None:
            si.RK45 = self._rk45
            self._rk45 = None
        try:
            del self.pot.findLocalMinimum
        except AttributeError:
            pass

    def steps_of(self, k):
        return [t for (i, t, st) in self.steps if i == k]


def _nearest_other(pot, phase, phi, T, own=None, min_sep=0.0):
    """(distance, label) to the nearest minimum of V(.,T) that is not the traced branch.

    Minima closer than ``min_sep`` to the traced branch itself (mirror images next to a
    point where the vev goes to zero continuously) cannot be told apart at field level and
    are left to the value-level test."""
    from wgverif.oracles import c11_branches as B
    best = (math.inf, None)
    for p, lab in B.other_minima(pot, phase, T):
        if own is not None and float(np.linalg.norm(p - own)) <= min_sep:
            continue
        d = float(np.linalg.norm(phi - p))
        if d < best[0]:
            best = (d, lab)
    return best


# ------------------------------------------------------------------ the table oracle
R_FLOOR = 1e-6   # see judge_table: floor of the relative accuracy entering the T slack

# mechanisms that are consequences of a starting point left with a large residual gradient
_START_CONSEQUENCES = ("row-not-at-branch-minimum", "table-stops-short-of-requested-end",
                       "rows-beyond-spinodal", "interpolated-minimum-off-branch",
                       "interpolated-free-energy-off", "row-hessian-not-positive-definite",
                       "spinodal-end-not-flagged", "end-flagged-although-range-covered",
                       "reminimised-row-appended-without-spinodal-recheck",
                       "consecutive-rows-jump", "retrace-table-stops-short-of-remembered-range")


def _attribute_start(viol, start_bad, data0, phase, res):
    """Collapse the consequences of an unconverged starting minimisation into the one
    mechanism that caused them (reported as a violation under its own name)."""
    if not start_bad:
        return res
    cons = [v for v in viol if v["mech"] in _START_CONSEQUENCES]
    if not cons:
        res["start_gradient_unresolved_without_consequence"] = 1
        return res
    for v in cons:
        viol.remove(v)
    viol.append({
        "mech": "minimiser-absolute-gtol-accepts-nonminimum",
        "msg": f"{phase} phase, unit factor {start_bad['unit_factor']}: findLocalMinimum(T="
        f"{start_bad['T']:.6g}, tol={start_bad['gtol']:g}) (call #{start_bad['call']}, 0 = starting "
        f"point) returned {start_bad['result']} from guess "
        f"{start_bad['guess']} (exact {start_bad['exact']}): |grad V|_inf="
        f"{start_bad['grad_inf_norm']:.2e} passes scipy's absolute gtol but |grad V|/T0^3="
        f"{start_bad['grad_over_T0cubed']:.2e} >> rTol={data0['rTol']:g}; the trace conserves "
        f"that gradient and near the spinodal: " + " | ".join(v["msg"][:160] for v in cons[:3]),
        "data": {**data0, "start": start_bad, "consequences": [v["mech"] for v in cons]}})
    return res


def judge_table(pot, phase, fe, req, rec, obs, viol, mon):
    """Oracle on the finished table and flags of one traced FreeEnergy.

    req = {"T0","TMin","TMax","dT","rTol","paranoid"}.  Appends violations; returns a
    dict of residual summaries.  This is the P_trace predicate of DESIGN 2.4."""
    from wgverif.oracles import c11_branches as B
    from scipy.interpolate import CubicSpline
    n = pot.fieldCount
    rTol, dT = req["rTol"], req["dT"]
    ends = B.end_types(pot, phase)
    (tlo, klo), (thi, khi) = ends["lo"], ends["hi"]
    fref = float(pot.field_scale(pot.Tc()))
    min_sep = 0.05 * fref
    X = np.asarray(fe._interpolationPoints, dtype=float)
    Y = np.asarray(fe._interpolationValues, dtype=float)
    mon["table_rows"] = mon.get("table_rows", 0) + int(X.size)
    phi = pot.to_phys(Y[:, :n])
    Vtab = Y[:, n]
    bq = B.branch(pot, phase, X)
    Vb = pot.V_phys(bq, X)
    Vrow = pot.V_phys(phi, X)
    Vscale = np.abs(Vb)
    res = {}
    data0 = {"phase": phase, "T0": req["T0"], "TMin": req["TMin"], "TMax": req["TMax"],
             "dT": dT, "rTol": rTol, "paranoid": req["paranoid"],
             "exists": [tlo, thi], "end_types": [klo, khi], "rows": int(X.size),
             "table_range": [float(X[0]), float(X[-1])],
             "minPossibleTemperature": [float(fe.minPossibleTemperature[0]),
                                        bool(fe.minPossibleTemperature[1])],
             "maxPossibleTemperature": [float(fe.maxPossibleTemperature[0]),
                                        bool(fe.maxPossibleTemperature[1])]}
    obs.update(data0)

    # A *soft* end (vev -> 0 continuously with the symmetric point a minimum beyond;
    # transcritical exchange of stability at T0 of poly1) is not a disappearance of the
    # *continuous* family of minima the property speaks of: rows beyond it are judged
    # against the continued branch, and neither stopping there with the flag nor tracing
    # through it is called a violation.
    hard, soft = B.hard, B.soft

    # Slack of the existence-interval test.  The tracer accepts |grad V| <= rTol*T0^3 resp.
    # an RK45 error rTol*max(|phi|,T); along a fold grad V = A (T - T_s) + ..., A = O(T^2),
    # i.e. a temperature overshoot of O(rTol*T)  (DESIGN C11 (i): K*rTol*T).  Below
    # rTol ~ 1e-6 the overshoot no longer shrinks with rTol: scipy's BFGS differentiates
    # V = -a T^4 + ... numerically, which leaves a relative gradient error
    # sqrt(eps)*|V|/(lambda phi^4) ~ 1e-6..5e-5 on the rows whatever rTol is (observed
    # overshoot at rTol = 1e-8: up to 3e-7 relative), hence the floor R_FLOOR.
    # The gradient is controlled relative to T0^3 (the *starting* temperature); at an end
    # with T_end < T0 the same absolute gradient is (T0/T_end)^3 larger relative to the local
    # scale.  How far a residual gradient of relative size g moves the end of the tilted
    # potential depends on the end type: a fold linearly (g*T), a sub-critical transverse
    # instability like g^(2/3) (imperfect pitchfork), a soft end like sqrt(g).
    #
    # Two-scale fold model (Poly2F): the same accuracy model with its two constants taken
    # from the closed-form geometry of the fold instead of "A = T^2, noise of V = eps*a*T^4"
    # (c11_branches.fold_geometry): the floor is multiplied by the factor by which the
    # evaluation noise of V exceeds eps*a*T^4 (the cancellation u^2 - v^2 with v >> p), and
    # the overshoot g*T0^3/A uses the actual A = |n.d(grad V)/dT| (A << T^2 at a weak fold,
    # where the vev at the fold is small against T); never tighter than the one-field formula.
    fg = B.fold_geometry(pot) if (type(pot).__name__ == "Poly2F" and khi == "fold") else None
    r_eff = max(rTol, R_FLOOR * (fg["noise"] if fg else 1.0))

    def slack_of(tend, kind):
        if kind == "none" or not math.isfinite(tend) or tend <= 0:
            return 0.0
        g = min(1.0, K_TOL * r_eff * max(1.0, (req["T0"] / tend) ** 3))
        if kind == "fold" and fg:
            return min(1.0, g * max(1.0, tend * tend / fg["A"])) * tend
        if kind == "fold":
            return g * tend
        if kind == "unstable":
            return g ** (2.0 / 3.0) * tend
        return math.sqrt(g) * tend

    slack_lo = slack_of(tlo, klo) if hard(klo) else 0.0
    slack_hi = slack_of(thi, khi) if hard(khi) else 0.0
    # next to a soft end the requirement "table reaches the requested end" is only made
    # further inside than the sqrt(g) displacement
    soft_lo = slack_of(tlo, klo) if soft(klo) else 0.0
    soft_hi = slack_of(thi, khi) if soft(khi) else 0.0

    # inside the soft zone of a merge end the Z2 mirror image of the branch is the same
    # continuous family (the path runs through vev ~ 0): fold the vev component
    if type(pot).__name__ == "Poly2" and khi == "merge":
        comp = 0 if phase == "low" else 1
        zone = X > thi - soft_hi
        phi = phi.copy()
        phi[zone, comp] = np.abs(phi[zone, comp])

    # ---- rows: strictly increasing abscissae
    if X.size < 2 or np.any(np.diff(X) <= 0):
        viol.append({"mech": "table-abscissae-not-increasing",
                     "msg": f"table abscissae not strictly increasing ({X.size} rows)",
                     "data": data0})
        return res

    # ---- every accepted RK45 step is a row: integration 0 runs upwards, 1 downwards; all
    # steps but the last of each (which may be the one the loop stopped on) must be rows,
    # and every row must be the start or a step
    if getattr(rec, "steps", None):
        mon["ode_steps"] = mon.get("ode_steps", 0) + len(rec.steps)
        must = set()
        for integ in (0, 1):
            must.update(rec.steps_of(integ)[:-1])
        allsteps = {t for (_, t, _) in rec.steps} | {req["T0"]}
        rows = set(X.tolist())
        missing = sorted(must - rows)
        # a step within 1e-2 dT of a kept abscissa may have been merged with it (the tracer
        # does not keep two nearly coincident rows, which would make the spline derivatives
        # amplify rounding noise; C10's subject) -- the table still covers that temperature
        merge = 1e-2 * req["dT"]
        missing = [t for t in missing if np.min(np.abs(X - t)) > merge]
        alien = sorted(rows - allsteps)
        res["rows_missing"] = len(missing)
        if missing:
            down = rec.steps_of(1)
            single = (len(down) == 2 and missing == [down[0]]) or \
                     (len(down) == 1 and missing == down)
            viol.append({"mech": ("single-downward-row-dropped" if single
                                  else "accepted-step-missing-from-table"),
                         "msg": f"{len(missing)} accepted RK45 step(s) are not in the table "
                         f"(e.g. T={missing[0]!r}); downward integration made {len(down)} "
                         f"step(s) from T0={req['T0']!r}; table starts at {X[0]!r}, request "
                         f"TMin={req['TMin']!r}, flag {bool(fe.minPossibleTemperature[1])}",
                         "data": {**data0, "missing": missing[:5]}})
        if alien:
            viol.append({"mech": "table-row-is-not-an-accepted-step",
                         "msg": f"{len(alien)} table abscissae are neither T0 nor an RK45 step "
                         f"(e.g. {alien[0]!r})", "data": data0})

    # ---- tabulated V is the potential at the tabulated point (rounding only: 1e-12)
    rV = np.abs(Vtab - Vrow) / np.maximum(np.abs(Vrow), 1e-300)
    res["V_mismatch_max"] = float(rV.max())
    if rV.max() > 1e-12:
        k = int(np.argmax(rV))
        viol.append({"mech": "tabulated-V-not-potential-at-tabulated-point",
                     "msg": f"row T={X[k]!r}: tabulated V={Vtab[k]!r} but V(phi_row,T)="
                     f"{Vrow[k]!r} (rel {rV[k]:.2e})", "data": {**data0, "row": k}})

    # ---- rows inside the existence interval (with the slack explained above)
    out_hi = X > thi + slack_hi if hard(khi) else np.zeros(X.shape, bool)
    out_lo = X < tlo - slack_lo if hard(klo) else np.zeros(X.shape, bool)
    outside = out_hi | out_lo
    strictly_in = np.ones(X.shape, bool)
    if hard(khi):
        strictly_in &= X < thi
    if hard(klo):
        strictly_in &= X > tlo
    if hard(khi):
        res["overshoot_hi_over_rTolT"] = float((X[-1] - thi) / (rTol * thi))
        if slack_hi > 0:
            res["overshoot_hi_over_slack"] = float((X[-1] - thi) / slack_hi)
    if hard(klo):
        res["overshoot_lo_over_rTolT"] = float((tlo - X[0]) / (rTol * tlo))

    # ---- same branch: nearest-minimum classification + value-level excess (2.3-5)
    d_own = np.linalg.norm(phi - bq, axis=-1)
    excess = Vrow - Vb
    tolV = K_TOL * rTol * Vscale + 64 * EPS * Vscale
    hop_rows = []
    for k in range(X.size):
        if abs(excess[k]) <= tolV[k] and d_own[k] <= 0.02 * fref:
            continue                       # cheap accept, skip the classification
        dn, lab = _nearest_other(pot, phase, phi[k], X[k], bq[k], min_sep)
        if dn < d_own[k]:
            hop_rows.append((k, lab))
    inside = ~outside
    res["hop_rows"] = len(hop_rows)
    hop_idx = {k for k, _ in hop_rows}

    # ---- the starting minimisation (first logged call) -- did it reach the minimum?
    # tracePhase's own dimensionless measure of "extremum still accurate" is
    # |grad V|/T0^3 <= rTol; findLocalMinimum(tol=...) however hands tol to scipy as an
    # *absolute* gradient tolerance.  If the returned point satisfies the absolute test but
    # misses the dimensionless one by more than K, every later row inherits that gradient
    # (the ODE conserves grad V) and whatever goes wrong near a spinodal is attributed to it.
    start_bad = None
    worst = 0.0
    for ci, (tc_, gc_, rc_, tol_) in enumerate(rec.calls):
        pc = pot.to_phys(rc_)
        grad = np.asarray(pot.grad_phys(pc, tc_), dtype=float)
        rel = float(np.linalg.norm(grad)) / req["T0"] ** 3
        if ci == 0:
            res["start_grad_over_T3_over_rTol"] = rel / rTol
        if tol_ is not None and float(np.abs(grad).max()) <= 1.5 * tol_ and rel > K_TOL * rTol \
                and rel > worst:
            worst = rel
            start_bad = {"call": ci, "T": tc_, "guess": pot.to_phys(gc_).tolist(),
                         "result": pc.tolist(),
                         "exact": B.branch(pot, phase, np.asarray(tc_)).tolist(), "gtol": tol_,
                         "grad_inf_norm": float(np.abs(grad).max()),
                         "grad_over_T0cubed": rel, "unit_factor": getattr(pot, "s", None)}
    if start_bad:
        obs["unconverged_minimisation"] = start_bad

    off_value = inside & (np.abs(excess) > tolV)
    res["excess_over_tol_max"] = float(np.max(np.abs(excess[inside]) / tolV[inside])) \
        if inside.any() else 0.0

    # ---- attribution of a hop through the minimiser log
    def near_end(t):
        return ((hard(khi) and t > thi - 5 * dT) or (hard(klo) and t < tlo + 5 * dT)
                or (soft(khi) and t > thi - max(5 * dT, soft_hi))
                or (soft(klo) and t < tlo + max(5 * dT, soft_lo)))

    hop_call = None
    for (t, g, r, tol) in rec.calls[1:]:          # [0] is the starting minimisation
        gp, rp = pot.to_phys(g), pot.to_phys(r)
        b_t = B.branch(pot, phase, np.asarray(t))
        dn_g, _ = _nearest_other(pot, phase, gp, t, b_t, min_sep)
        dn_r, lab_r = _nearest_other(pot, phase, rp, t, b_t, min_sep)
        if np.linalg.norm(gp - b_t) < dn_g and dn_r < np.linalg.norm(rp - b_t):
            hop_call = {"T": t, "guess": gp.tolist(), "result": rp.tolist(), "to": lab_r,
                        "branch_at_T": b_t.tolist(), "tol": tol,
                        "beyond_hi": bool(hard(khi) and t > thi),
                        "beyond_lo": bool(hard(klo) and t < tlo),
                        "dist_to_spinodal_over_dT": float(min(
                            abs(t - thi) if (hard(khi) or soft(khi)) else math.inf,
                            abs(t - tlo) if (hard(klo) or soft(klo)) else math.inf) / dT),
                        "near_end": bool(near_end(t))}
            break
    if hop_call:
        obs["minimiser_hop"] = hop_call

    if hop_rows:
        k, lab = hop_rows[0]
        d = {**data0, "first_off_branch_row": {"k": k, "T": float(X[k]), "phi": phi[k].tolist(),
                                               "branch": bq[k].tolist(), "nearest": lab},
             "off_branch_rows": len(hop_rows), "minimiser_hop": hop_call,
             "last_on_branch_row": {"T": float(X[k - 1]), "phi": phi[k - 1].tolist()} if k else None}
        beyond = bool((hard(khi) and X[k] > thi) or (hard(klo) and X[k] < tlo))
        # what brought the first off-branch row there: the RK45 step onto that temperature
        # (|y - y_old|, from the ODE monitor) and the re-minimisation at it (|result - guess|,
        # from the minimiser monitor).  Beyond a spinodal, a re-minimisation that moved the
        # point *less* than the ODE step itself had moved it completes a hop that the step
        # across the spinodal began; it is reported under its own name.
        moved, t_from = getattr(rec, "moves", {}).get(float(X[k]), (None, None))
        # the accepted step started on the branch (inside the existence interval, up to the
        # slack) and ended beyond the closed-form spinodal: it is the step that crossed it
        crossed = bool(t_from is not None and (
            (hard(khi) and X[k] > thi and t_from <= thi + slack_hi) or
            (hard(klo) and X[k] < tlo and t_from >= tlo - slack_lo)))
        jump_k = None
        for (t, g, r, tol) in rec.calls[1:]:
            if t == X[k]:
                jump_k = float(np.linalg.norm(r - g))
        fsc_ = np.asarray(pot.derivativeSettings.fieldValueVariationScale, dtype=float)
        d["step_onto_first_off_branch_row"] = {
            "ode_step_moved": moved, "ode_step_from_T": t_from, "crossed_spinodal": crossed,
            "reminimisation_moved": jump_k,
            "smallest_field_scale": float(fsc_.min()), "largest_field_scale": float(fsc_.max())}
        if beyond and crossed and moved is not None and jump_k is not None and 0.0 < jump_k <= moved:
            mech = "hop-across-spinodal-completed-by-reminimisation-smaller-than-ode-step"
            msg = (f"{phase} phase traced from T0={req['T0']:.6g} over [{req['TMin']:.6g},"
                   f"{req['TMax']:.6g}] (exists on [{tlo:.6g},{thi:.6g}], rTol={rTol:g}, paranoid="
                   f"{req['paranoid']}): the RK45 step onto T={X[k]:.9g} "
                   f"({abs(X[k] - (thi if X[k] > thi else tlo)) / dT:.2g} dT beyond the spinodal) moved "
                   f"the point by {moved:.4g} from {phi[k - 1].tolist() if k else None}, the "
                   f"re-minimisation there by a further {jump_k:.4g} onto {phi[k].tolist()} "
                   f"('{lab}' minimum; field scales {fsc_.tolist()}); {len(hop_rows)} of {X.size} rows "
                   f"are on another phase, table runs to [{X[0]:.6g},{X[-1]:.6g}], flags "
                   f"{data0['minPossibleTemperature'][1]}/{data0['maxPossibleTemperature'][1]}")
        elif hop_call and hop_call["near_end"]:
            mech = ("paranoid-hop-across-spinodal" if req["paranoid"]
                    else "reminimisation-hop-across-spinodal")
            msg = (f"{phase} phase traced from T0={req['T0']:.6g} over [{req['TMin']:.6g},"
                   f"{req['TMax']:.6g}] (exists on [{tlo:.6g},{thi:.6g}]): findLocalMinimum at "
                   f"T={hop_call['T']:.9g} ({hop_call['dist_to_spinodal_over_dT']:.2g} dT "
                   f"{'beyond' if hop_call['beyond_hi'] or hop_call['beyond_lo'] else 'before'} "
                   f"the spinodal) took the point from {hop_call['guess']} to "
                   f"{hop_call['result']} ({hop_call['to']}); {len(hop_rows)} of {X.size} rows are on "
                   f"another phase, table runs to [{X[0]:.6g},{X[-1]:.6g}], flags "
                   f"{data0['minPossibleTemperature'][1]}/{data0['maxPossibleTemperature'][1]}")
        elif hop_call:
            mech = "reminimisation-hop-inside-existence-interval"
            msg = (f"findLocalMinimum at T={hop_call['T']:.9g} (deep inside the existence "
                   f"interval [{tlo:.6g},{thi:.6g}]) moved the point from the traced branch to "
                   f"{hop_call['to']}; {len(hop_rows)} rows off branch")
        else:
            mech = "rows-on-another-phase"
            msg = (f"{len(hop_rows)} of {X.size} rows are nearer to minimum '{lab}' than to the "
                   f"traced {phase} branch (first at T={X[k]:.9g}, beyond spinodal: {beyond}); "
                   f"no minimiser call accounts for it")
        viol.append({"mech": mech, "msg": msg, "data": d})

    # rows that continue past the end of existence on the clamped continuation
    cont = [k for k in np.nonzero(outside)[0] if k not in hop_idx]
    if cont:
        k = cont[-1] if out_hi[cont[-1]] else cont[0]
        viol.append({"mech": "rows-beyond-spinodal",
                     "msg": f"{len(cont)} rows lie outside the existence interval "
                     f"[{tlo:.9g},{thi:.9g}] by more than the slack {max(slack_lo, slack_hi):.2e} "
                     f"(e.g. T={X[k]:.9g}, phi={phi[k].tolist()}, end types {klo}/{khi}) without "
                     f"having moved to another minimum", "data": {**data0, "row": int(k)}})
    bad = [k for k in np.nonzero(off_value)[0] if k not in hop_idx]
    if bad:
        k = bad[int(np.argmax(np.abs(excess[bad]) / tolV[bad]))]
        viol.append({"mech": "row-not-at-branch-minimum",
                     "msg": f"row T={X[k]:.9g}: V(phi_row)-V(branch)={excess[k]:.3e} exceeds "
                     f"K*rTol*|V|={tolV[k]:.3e} (|dphi|={d_own[k]:.3e})",
                     "data": {**data0, "row": int(k), "phi": phi[k].tolist(),
                              "branch": bq[k].tolist()}})

    # ---- evidence only: the tracer's own dimensionless gradient measure on the rows
    gr = np.linalg.norm(np.asarray(pot.grad_phys(pot.to_phys(Y[:, :n]), X)), axis=-1) / req["T0"] ** 3
    if strictly_in.any():
        res["row_grad_over_T0cubed_over_rTol_max"] = float(np.max(gr[strictly_in]) / rTol)

    # ---- analytic Hessian positive definite on every row strictly inside the interval
    # (tolerance: rounding bound of WallGo's own finite-difference Hessian, which is what
    # its spinodal test sees; truncation vanishes for a quartic polynomial)
    H = np.asarray(pot.hess_phys(phi, X))
    ev = np.linalg.eigvalsh(H)[..., 0]
    fsc = np.asarray(pot.derivativeSettings.fieldValueVariationScale, dtype=float)
    dxmin = float(np.min(fsc)) * 1e-15 ** (1.0 / 6.0)
    tolH = 200 * EPS * np.abs(Vrow) / dxmin ** 2
    if fg and not req.get("spinodal", True) and slack_hi > 0:
        # mass-squared test switched off by the caller: what is left is the gradient control
        # |grad V| <= g.  Within g/A of the fold (the slack zone before it) a point with
        # |n.grad V| <= g has a curvature >= -sqrt(4 V3 g) along n (fold_geometry); g as in
        # slack_of (absolute units)
        g_abs = min(1.0, K_TOL * r_eff * max(1.0, (req["T0"] / thi) ** 3)) * thi ** 3
        tolH = np.where(X > thi - slack_hi,
                        np.maximum(tolH, math.sqrt(4.0 * fg["V3"] * g_abs)), tolH)
    res["min_hess_eig_over_tol"] = float(np.min(ev[strictly_in] / tolH[strictly_in])) \
        if strictly_in.any() else 0.0
    neg = [k for k in np.nonzero((ev < -tolH) & strictly_in)[0] if k not in hop_idx]
    if neg:
        k = neg[int(np.argmin(ev[neg]))]
        mech = "row-hessian-not-positive-definite"
        extra = ""
        # attribution: the row is the *result* of a re-minimisation whose guess (the point
        # the tracer's spinodal test had looked at) still had a positive-definite Hessian
        for (t, g, r, tol) in rec.calls[1:]:
            if t == X[k] and np.array_equal(r, Y[k, :n]):
                evg = float(np.linalg.eigvalsh(np.asarray(pot.hess_phys(pot.to_phys(g), t)))[0])
                if evg > -tolH[k] and not req["paranoid"]:
                    mech = "reminimised-row-appended-without-spinodal-recheck"
                    extra = (f"; it is the result of findLocalMinimum from {pot.to_phys(g).tolist()} "
                             f"(eigenvalue there {evg:.3e} > 0), accepted after the spinodal test")
                break
        viol.append({"mech": mech,
                     "msg": f"row T={X[k]:.9g} ({(thi - X[k]) / dT if hard(khi) else math.inf:.2g} dT "
                     f"before the upper spinodal) phi={phi[k].tolist()}: smallest analytic Hessian "
                     f"eigenvalue {ev[k]:.3e} < -{tolH[k]:.1e} (FD rounding bound)" + extra,
                     "data": {**data0, "row": int(k)}})

    # ---- consecutive rows: no jump between branches.  |dphi_k - d branch_k| against half
    # the distance to the nearest other (field-level resolvable) minimum
    dphi = np.diff(phi, axis=0) - np.diff(bq, axis=0)
    jn = np.linalg.norm(dphi, axis=-1)
    jumps = []
    for k in np.nonzero(jn > 0.02 * fref)[0]:
        if (soft(khi) and X[k + 1] > thi - soft_hi) or (soft(klo) and X[k] < tlo + soft_lo):
            continue      # sqrt-type variation of the branch next to a soft end: value level only
        dn, lab = _nearest_other(pot, phase, bq[k + 1], X[k + 1], bq[k + 1], min_sep)
        if math.isfinite(dn) and jn[k] > 0.5 * dn:
            jumps.append((int(k), lab))
    res["jumps"] = len(jumps)
    if jumps and not hop_rows:
        k, lab = jumps[0]
        viol.append({"mech": "consecutive-rows-jump",
                     "msg": f"rows T={X[k]:.9g} -> {X[k + 1]:.9g}: field moves by {jn[k]:.3e} "
                     f"more than the branch itself (towards '{lab}')", "data": {**data0, "row": k}})

    # ---- ends, flags, safety margin
    rt = req.get("retrace")        # None for the first call on a fresh object
    for i_side, side in enumerate(("lo", "hi")):
        tend, kind = ends[side]
        reqT = req["TMin"] if side == "lo" else req["TMax"]
        tabT = float(X[0]) if side == "lo" else float(X[-1])
        poss = fe.minPossibleTemperature if side == "lo" else fe.maxPossibleTemperature
        flag = bool(poss[1])
        want = tabT + 2 * dT if side == "lo" else tabT - 2 * dT
        if float(poss[0]) != want:
            viol.append({"mech": "possible-temperature-not-table-end-2dT",
                         "msg": f"{side}: advertised {float(poss[0])!r} != table end {tabT!r} "
                         f"{'+' if side == 'lo' else '-'} 2*dT = {want!r}", "data": data0})
        if soft(kind):
            sl = soft_lo if side == "lo" else soft_hi
            rawT = rt["raw"][i_side] if rt else reqT
            if any(((q < tend + sl) if side == "lo" else (q > tend - sl)) for q in (reqT, rawT)):
                obs[f"end_{side}"] = "soft-end(not judged)"
                obs[f"soft_{side}"] = {"kind": kind, "table_end": tabT, "flag": flag,
                                       "reached": tabT == reqT}
                continue
        slack = slack_lo if side == "lo" else slack_hi
        beyond = hard(kind) and ((reqT < tend - slack) if side == "lo" else (reqT > tend + slack))
        within = (not hard(kind)) or ((reqT > tend + slack) if side == "lo" else (reqT < tend - slack))
        obs[f"end_{side}"] = "past" if beyond else ("inside" if within else "slack-zone")
        hop_side = any(((X[k] > req["T0"]) if side == "hi" else (X[k] < req["T0"]))
                       for k in hop_idx)
        if hop_side:
            continue                      # consequence of the hop already reported
        if rt:
            # A further call on an object that has been traced before.  tracePhase clips the
            # request to the range the object advertised before the call ("maximum
            # temperature range"): reqT is that *effective* end (always inside the previous
            # table), raw the end the caller asked for, prev what the flag said before.
            raw, prev = rt["raw"][i_side], bool(rt["prev_flags"][i_side])
            clipped = raw != reqT
            raw_beyond = hard(kind) and ((raw < tend - slack) if side == "lo" else (raw > tend + slack))
            raw_within = (not hard(kind)) or ((raw > tend + slack) if side == "lo" else (raw < tend - slack))
            head = (f"call #{rt['k'] + 2} on the same object, {side} end: asked {raw!r} "
                    f"(previously advertised {rt['prev_adv'][i_side]!r}, flag {prev}; spinodal "
                    f"{tend:.9g} ({kind})), effective request {reqT!r}, table ends at {tabT!r}, "
                    f"flag now {flag}")
            d_rt = {**data0, "retrace": rt}
            # coverage is not a matter of the last bit (the remembered end is old table end
            # -+ 2 dT_prev evaluated in floating point; with the same dT it coincides with a
            # step of the new integration up to rounding); the flag is judged strictly
            reached = abs(tabT - reqT) <= 4 * float(np.spacing(abs(reqT)))
            ulp_short = reached and tabT != reqT
            if ulp_short:
                obs[f"retrace_{side}_ulps_short"] = float(abs(tabT - reqT) / np.spacing(abs(reqT)))
            ulp_mech = "rounding-remainder-before-range-end-flagged-as-disappearance"
            if within and not reached:
                viol.append({"mech": "retrace-table-stops-short-of-remembered-range",
                             "msg": head + ": the effective end lies inside the previous table "
                             "(where the phase exists) but the new table does not reach it",
                             "data": d_rt})
                continue
            if not within:
                obs[f"retrace_{side}"] = "slack-zone(not judged)"
            elif not clipped:
                # the asked end lies inside the remembered range, hence inside the existence
                # interval, and the table covers it: not a disappearance of the phase
                obs[f"retrace_{side}"] = "covered:" + ("was-flagged" if prev else "was-unflagged")
                if flag:
                    viol.append({"mech": (ulp_mech if ulp_short else
                                          "end-flag-stale-after-retrace-over-covered-range" if prev
                                          else "end-flagged-although-range-covered"),
                                 "msg": head + ": the asked end is inside the existence interval and "
                                 "the table reaches it, yet the end is flagged as a genuine "
                                 "disappearance of the phase", "data": d_rt})
            elif raw_beyond and prev:
                # the caller again asks for a range that contains the spinodal found before
                obs[f"retrace_{side}"] = "past:flag-must-persist"
                if not flag:
                    viol.append({"mech": "spinodal-end-flag-lost-on-retrace",
                                 "msg": head + ": the asked range still contains the spinodal the "
                                 "previous call had stopped at, but the end is no longer flagged "
                                 "as a genuine disappearance", "data": d_rt})
            elif raw_beyond:
                # first request ended inside, this one reaches past the spinodal: the clipping
                # keeps the object from ever learning about it (recorded, not judged)
                obs[f"retrace_{side}"] = "past:widening-clipped(not judged)"
            elif raw_within and not prev:
                obs[f"retrace_{side}"] = "inside:widening-clipped"
                if flag:
                    viol.append({"mech": ulp_mech if ulp_short else "end-flagged-although-range-covered",
                                 "msg": head + ": nothing ends here (the asked end and the "
                                 "remembered one are inside the existence interval) but the end "
                                 "is flagged", "data": d_rt})
            else:
                # asked end between the remembered range and the spinodal, end known to be
                # genuine: either reading of the flag is defensible
                obs[f"retrace_{side}"] = "near-known-spinodal(not judged)"
            continue
        if beyond:
            # table must end before the spinodal: covered by the row test; flag must be set
            if not flag:
                viol.append({"mech": "spinodal-end-not-flagged",
                             "msg": f"{side} end: requested {reqT:.9g} lies beyond the spinodal "
                             f"{tend:.9g} ({kind}) but the flag is False; table ends at "
                             f"{tabT:.9g}", "data": data0})
        elif within:
            down = rec.steps_of(1) if getattr(rec, "steps", None) else []
            if tabT != reqT and side == "lo" and tabT == req["T0"] and len(down) == 1 \
                    and down[0] == reqT:
                viol.append({"mech": "single-downward-row-dropped",
                             "msg": f"the downward integration reached the requested TMin="
                             f"{reqT!r} in one step from T0={req['T0']!r} (phase exists down to "
                             f"{tend:.6g}); that row is not in the table, which starts at T0 "
                             f"and is flagged as a true end: {flag}", "data": data0})
            elif tabT != reqT and flag and abs(tabT - reqT) <= 4 * float(np.spacing(abs(reqT))):
                viol.append({"mech": "rounding-remainder-before-range-end-flagged-as-disappearance",
                             "msg": f"{side} end: requested {reqT!r} (inside the existence "
                             f"interval, spinodal {tend:.9g}); the table ends at {tabT!r}, "
                             f"{abs(tabT - reqT) / float(np.spacing(abs(reqT))):.0f} ulp short of it "
                             f"(ulp {float(np.spacing(abs(reqT))):.2e}, 1e-16*T0={1e-16 * req['T0']:.2e}), "
                             f"and the end is flagged as a genuine disappearance of the phase",
                             "data": data0})
            elif tabT != reqT:
                viol.append({"mech": "table-stops-short-of-requested-end",
                             "msg": f"{side} end: requested {reqT!r} is inside the existence "
                             f"interval (spinodal {tend:.9g}, {abs(reqT - tend) / dT:.3g} dT away) "
                             f"but the table ends at {tabT!r} (flag {flag})", "data": data0})
            elif flag:
                viol.append({"mech": "end-flagged-although-range-covered",
                             "msg": f"{side} end: table reaches the requested {reqT!r} (inside "
                             f"the existence interval) but is flagged as a true end",
                             "data": data0})

    # ---- interpolation inside the advertised range
    lo_adv, hi_adv = float(fe.minPossibleTemperature[0]), float(fe.maxPossibleTemperature[0])
    if hop_rows or not (hi_adv > lo_adv):
        return _attribute_start(viol, start_bad, data0, phase, res)
    rng = np.random.default_rng(req.get("seed", 0))
    Tq = np.sort(rng.uniform(lo_adv, hi_adv, size=N_INTERP))
    try:
        out = fe(Tq)
        xi = np.asarray(out.fieldsAtMinimum, dtype=float).reshape(N_INTERP, n)
        Vi = np.asarray(out.veffValue, dtype=float).reshape(N_INTERP)
    except Exception as exc:
        viol.append({"mech": "interpolation-raises-inside-advertised-range",
                     "msg": f"FreeEnergy(T) raised {exc!r} for T in [{lo_adv},{hi_adv}]",
                     "data": data0})
        return res
    mon["interp_points"] = mon.get("interp_points", 0) + N_INTERP
    pq = pot.to_phys(xi)
    bT = B.branch(pot, phase, Tq)
    VbT = pot.V_phys(bT, Tq)
    # spline model: error of the same kind of spline through *exact* values at the same knots
    ref = CubicSpline(X, np.concatenate([bq, Vb[:, None]], axis=1), axis=0)(Tq)
    e_phi = np.linalg.norm(ref[:, :n] - bT, axis=-1)
    e_V = np.abs(ref[:, n] - VbT)
    Hq = np.asarray(pot.hess_phys(bT, Tq))
    lmax = np.abs(np.linalg.eigvalsh(Hq)).max(axis=-1)
    tol_ex = K_TOL * rTol * np.abs(VbT) + 2.0 * lmax * e_phi ** 2 + 64 * EPS * np.abs(VbT)
    ex = pot.V_phys(pq, Tq) - VbT
    tol_v = K_TOL * rTol * np.abs(VbT) + 2.0 * e_V + 64 * EPS * np.abs(VbT)
    dv = np.abs(Vi - VbT)
    res["interp_excess_over_tol_max"] = float(np.max(np.abs(ex) / tol_ex))
    res["interp_V_over_tol_max"] = float(np.max(dv / tol_v))
    res["interp_V_rel_max"] = float(np.max(dv / np.abs(VbT)))
    res["spline_model_share"] = float(np.max(2.0 * e_V / tol_v))
    if np.any(np.abs(ex) > tol_ex):
        k = int(np.argmax(np.abs(ex) / tol_ex))
        viol.append({"mech": "interpolated-minimum-off-branch",
                     "msg": f"T={Tq[k]:.9g}: V(phi_interp,T)-V_min(T)={ex[k]:.3e} > tol "
                     f"{tol_ex[k]:.3e} (phi_interp={pq[k].tolist()}, exact {bT[k].tolist()})",
                     "data": {**data0, "T": float(Tq[k])}})
    if np.any(dv > tol_v):
        k = int(np.argmax(dv / tol_v))
        viol.append({"mech": "interpolated-free-energy-off",
                     "msg": f"T={Tq[k]:.9g}: interpolated V={Vi[k]!r} vs exact {VbT[k]!r} "
                     f"(diff {dv[k]:.3e} > K*rTol*|V| + spline model = {tol_v[k]:.3e})",
                     "data": {**data0, "T": float(Tq[k])}})
    return _attribute_start(viol, start_bad, data0, phase, res)


# ------------------------------------------------------------------------- trace case
def _materialise_end(side, em, spin_T, kind, cap, t_start, dT):
    """Requested end of the range on one side.  Returns (value, intended mode)."""
    sgn = -1.0 if side == "lo" else 1.0
    if em["mode"] == "ulpstep":
        em = {"mode": "deep", "x": 0.5 + 0.4 * em["x"]}     # nominal end; see _ulp_place
    if em["mode"] == "onestep":
        # TMin one RK45 step (first_step = T0 - TMin <= dT) below the start
        v = t_start - em["x"] * dT
        if kind == "none" or v > spin_T + 2 * dT:
            return v, "onestep"
        em = {"mode": "deep", "x": 0.5}
    if kind == "none":
        # no spinodal here: somewhere between the cap and the start
        return t_start + sgn * max(em["x"] if em["mode"] == "deep" else 0.6, 0.2) * abs(cap - t_start) \
            + sgn * 2.5 * dT, "deep"
    if em["mode"] == "past":
        return spin_T + sgn * em["x"] * dT, "past"
    if em["mode"] == "near":
        v = spin_T - sgn * em["x"] * dT
    else:
        v = t_start + sgn * em["x"] * abs(spin_T - t_start)
    if sgn * (v - t_start) < 0.5 * dT:            # start too close to the spinodal
        return spin_T + sgn * em["x"] * dT, "past"
    return v, em["mode"]


N_SCRATCH = 12


def _ulp_place(pot, case, t_start, dT, rTol, first, guess, nominal):
    """Put the requested end(s) in mode 'ulpstep' k ulp beyond (k<0: before) a step of the
    tracer.  Step positions: a scratch FreeEnergy traced with the same settings over
    t_start -+ 12 dT under the RK45 recorder; once three consecutive steps equal dT the
    later ones are t + k dT accumulated in the solver's floating-point order.  The step is
    chosen no further out than the nominal (deep) end; among the admissible ones the
    outermost whose remainder is below 1e-16*T0 is preferred for a lower end."""
    import WallGo
    from WallGo import Fields
    out, info = list(nominal), {}
    sides = [(0, "lo", 1, -1.0), (1, "hi", 0, 1.0)]
    want = [sd for _, sd, _, _ in sides if case[sd]["mode"] == "ulpstep"]
    scratch = WallGo.FreeEnergy(pot, t_start, Fields(guess))
    rec = MinimiserRecorder(pot)
    rec.install()
    try:
        try:
            scratch.tracePhase(t_start - N_SCRATCH * dT, t_start + N_SCRATCH * dT, dT, rTol=rTol,
                               paranoid=case["paranoid"], phaseTracerFirstStep=first)
        finally:
            rec.remove()
    except Exception as exc:        # noqa: BLE001 (CaseTimeout derives from BaseException)
        return out, {sd: {"status": "scratch-raised", "error": repr(exc)[:80]} for sd in want}
    for j, sd, integ, sgn in sides:
        if sd not in want:
            continue
        em = case[sd]
        st = rec.steps_of(integ)[:-1]
        if len(st) < 5 or not np.all(np.abs(np.abs(np.diff(st[-4:])) / dT - 1.0) < 1e-9):
            info[sd] = {"status": "ramp-up-not-finished"}
            continue
        t, hist = st[-1], []
        while sgn * (t + sgn * dT - nominal[j]) <= 0 and len(hist) < 20000:
            t = t + sgn * dT
            hist.append(t)
        if len(hist) < 3:
            info[sd] = {"status": "range-too-short"}
            continue
        pick = hist[-1]
        if sd == "lo" and em["ulps"] > 0:
            small = [h for h in hist[2:] if float(np.spacing(h)) < 1e-16 * t_start]
            if small:
                pick = small[-1]
        v = pick
        for _ in range(abs(em["ulps"])):
            v = float(np.nextafter(v, sgn * np.inf if em["ulps"] > 0 else -sgn * np.inf))
        out[j] = float(v)
        info[sd] = {"status": "placed", "ulps": em["ulps"], "step": float(pick), "end": out[j],
                    "nominal": float(nominal[j]),
                    "remainder_below_1e-16_T0": bool(abs(out[j] - pick) < 1e-16 * t_start)}
    return (out[0], out[1]), info


def _hier_window(rec, fsc, obs, cls, mon, paranoid, spinodal):
    """Workload evidence for the per-field-scale cases (classification only, no verdict):
    did a re-minimisation of this trace move the point by more than a tenth of the
    *smallest* field scale but less than a tenth of the *largest*?  That is the situation
    in which it matters which of the user's scales a "moved to another phase" test of the
    tracer is measured against.  The displacement is read off the minimiser log (code
    fields; the affine map is an isometry)."""
    best = None
    for (t, g, r, tol) in rec.calls[1:]:
        j = float(np.linalg.norm(r - g))
        if 0.1 * fsc.min() < j <= 0.1 * fsc.max() and (best is None or j > best["jump"]):
            best = {"T": t, "jump": j, "over_min_scale": j / float(fsc.min()),
                    "over_max_scale": j / float(fsc.max())}
    if best:
        obs["hier"]["reminimisation_jump_between_scales"] = best
        mon["hier_jumps_between_scales"] = mon.get("hier_jumps_between_scales", 0) + 1
        cls += ["hier:jump-between-scales",
                "hier:jump-between-scales:" + ("paranoid" if paranoid else "nonparanoid"),
                "hier:jump-between-scales:spinodal-" + ("on" if spinodal else "off")]


def _case_trace(case):
    import WallGo
    from WallGo import Fields
    from wgverif.oracles import c11_branches as B
    pot, w0, tref, fref = _build(case)
    phase = case["phase"]
    a, b, ends = _working_interval(pot, phase)
    (tlo, klo), (thi, khi) = ends["lo"], ends["hi"]
    if type(pot).__name__ == "Poly2" and "exchange" in (klo, khi):
        return {"key": f"inadm:{case['i']}", "cls": ["inadmissible:supercritical-poly2"],
                "nontrivial": False, "obs": {"end_types": [klo, khi]}, "viol": [],
                "mon": {"traces_run": 0}}
    W = b - a
    t_start = a + case["u0"] * W
    dT = case["dT_frac"] * W
    TMin, mlo = _materialise_end("lo", case["lo"], tlo, klo, a, t_start, dT)
    TMax, mhi = _materialise_end("hi", case["hi"], thi, khi, b, t_start, dT)
    TMin = max(TMin, 0.05 * t_start)
    rTol = case["rTol"]
    first = None
    if mlo == "onestep":
        first = t_start - TMin
        TMax = max(TMax, t_start + 1.05 * first)      # first_step must fit both directions
    elif case["first"] is not None:
        first = min(case["first"] * dT, 0.5 * (TMax - t_start), 0.5 * (t_start - TMin))
    rng = np.random.default_rng(case["s"])
    b0 = B.branch(pot, phase, np.asarray(t_start))
    dirn = rng.normal(size=pot.fieldCount)
    dirn /= np.linalg.norm(dirn)
    guess = pot.to_code(b0 + case["guess_pert"] * fref * dirn)
    # a user may well type the phase location as integers (Fields([0, 200])): in large units
    # rounding moves the guess by < 1 % of the field scale, but the integer dtype must not
    # propagate into the located minimum (repo fix f214211)
    int_guess = bool(case["spec"]["s"] >= 50 and case["s"] % 3 == 0)
    if int_guess:
        guess = np.rint(np.asarray(guess, dtype=float)).astype(np.int64)
    placed = {}
    if "ulpstep" in (case["lo"]["mode"], case["hi"]["mode"]):
        (TMin, TMax), placed = _ulp_place(pot, case, t_start, dT, rTol, first, guess, (TMin, TMax))
        mlo = "ulpstep" if placed.get("lo", {}).get("status") == "placed" else mlo
        mhi = "ulpstep" if placed.get("hi", {}).get("status") == "placed" else mhi
    hier = case.get("hier")
    spinodal = bool(case.get("spinodal", True))
    key = (f"tr:{case['spec']['family']}:{phase}:{case['spec']['s']:g}:{mlo}/{mhi}:"
           f"{rTol:g}:{int(case['paranoid'])}:{case['s'] % 9973}")
    if hier:
        key += f":{hier['order']}:{int(spinodal)}"
    mon = {"traces_run": 1, "traces_decided": 0, "minimiser_calls": 0}
    obs = {"model": {k: v for k, v in case["spec"].items()}, "t_start": t_start,
           "first_step": first, "guess_pert": case["guess_pert"], "W": W}
    if placed:
        obs["ulp_placed"] = placed
    viol = []
    fe = WallGo.FreeEnergy(pot, t_start, Fields(guess))
    rec = MinimiserRecorder(pot)
    rec.install()
    cls = [f"end:{m}" for m in (mlo, mhi)] + [f"fam:{case['spec']['family']}:{phase}",
                                              f"unit:{case['spec']['s']:g}",
                                              "paranoid" if case["paranoid"] else "nonparanoid"]
    if int_guess:
        cls.append("guess:int-dtype")
    kw = {}
    if hier:
        fsc = np.asarray(pot.derivativeSettings.fieldValueVariationScale, dtype=float)
        obs["hier"] = {"order": hier["order"], "scales_code": fsc.tolist(),
                       "scale_ratio": float(fsc.max() / fsc.min()), "spinodal": spinodal}
        cls += [f"hier:{hier['order']}", f"hier:{hier['order']}:{mhi}",
                "hier:spinodal-" + ("on" if spinodal else "off"), f"hier:rTol:{rTol:g}",
                "hier:small-scale-on-code-field-" + str(int(np.argmin(fsc)))]
        mon["hier_traces_run"] = 1
        kw["spinodal"] = spinodal          # the default (True) is left implicit elsewhere
    try:
        try:
            fe.tracePhase(TMin, TMax, dT, rTol=rTol, paranoid=case["paranoid"],
                          phaseTracerFirstStep=first, **kw)
        finally:
            rec.remove()
            mon["minimiser_calls"] = len(rec.calls)
            if hier:
                _hier_window(rec, fsc, obs, cls, mon, case["paranoid"], spinodal)
    except AssertionError as exc:
        avail = min(TMax, thi) - max(TMin, tlo)
        obs.update(refused=str(exc)[:120], available_over_dT=avail / dT)
        msg = str(exc)
        if "Temperature range negative" in msg:
            # rows the loop must have accepted: all steps but the last of each integration
            up, down = rec.steps_of(0)[:-1], rec.steps_of(1)[:-1]
            lo_e = min(down) if down else t_start
            hi_e = max(up) if up else t_start
            obs["expected_table_over_dT"] = (hi_e - lo_e) / dT
            if hi_e - 2 * dT > lo_e + 2 * dT:
                viol.append({"mech": ("single-downward-row-dropped" if len(down) == 1
                                      else "accepted-step-missing-from-table"),
                             "msg": f"tracePhase asserted '{msg[:60]}' although the accepted "
                             f"RK45 steps span [{lo_e:.9g},{hi_e:.9g}] = {(hi_e - lo_e) / dT:.2f} dT "
                             f"(> 4 dT); downward integration accepted {len(down)} row(s)",
                             "data": obs})
                return {"key": key, "cls": cls + ["refused:rows-dropped"], "nontrivial": True,
                        "obs": obs, "viol": viol, "mon": mon}
            return {"key": key, "cls": ["refused:range-below-4dT"], "nontrivial": False,
                    "obs": obs, "viol": [], "mon": mon}
        if "unstable at starting temperature" in msg and case["guess_pert"] > 0:
            return {"key": key, "cls": ["refused:start-unstable"], "nontrivial": False,
                    "obs": obs, "viol": [], "mon": mon}
        viol.append({"mech": "trace-refuses-admissible-request",
                     "msg": f"tracePhase asserted '{msg[:100]}' although "
                     f"{avail / dT:.2f} dT of the phase lie inside the requested range",
                     "data": obs})
        return {"key": key, "cls": cls + ["refused:other"], "nontrivial": True, "obs": obs,
                "viol": viol, "mon": mon}
    except Exception as exc:
        if type(exc).__name__ == "CaseTimeout":
            raise                          # watchdog: the runner turns it into inconclusive
        singular = isinstance(exc, np.linalg.LinAlgError)
        viol.append({"mech": ("trace-raises-singular-hessian-near-spinodal" if singular
                              else "trace-raises"),
                     "msg": f"tracePhase raised {exc!r} ({phase} phase, exists on "
                     f"[{tlo:.9g},{thi:.9g}] ({klo}/{khi}), start {t_start:.9g}, request "
                     f"[{TMin},{TMax}], dT={dT}, rTol={rTol}, paranoid={case['paranoid']}, "
                     f"first_step={first})", "data": obs})
        return {"key": key, "cls": cls + ["raised"], "nontrivial": True, "obs": obs,
                "viol": viol, "mon": mon}
    req = {"T0": t_start, "TMin": TMin, "TMax": TMax, "dT": dT, "rTol": rTol,
           "paranoid": case["paranoid"], "seed": case["s"], "spinodal": spinodal}
    res = judge_table(pot, phase, fe, req, rec, obs, viol, mon)
    if hier:
        # a hop whose re-minimisation moved the point by more than a tenth of the smallest but
        # less than a tenth of the largest of the user's field scales: named separately (it is
        # the per-field-scale workload that can tell which scale a jump test is measured by)
        hc = obs.get("minimiser_hop")
        j = float(np.linalg.norm(np.asarray(hc["result"]) - np.asarray(hc["guess"]))) if hc else None
        for v in viol:
            if v["mech"] in ("paranoid-hop-across-spinodal", "reminimisation-hop-across-spinodal") \
                    and j is not None and 0.1 * fsc.min() < j <= 0.1 * fsc.max():
                v["data"]["hop_moved_over_field_scales"] = [j / float(fsc.min()), j / float(fsc.max())]
                v["mech"] += ":jump-between-tenth-of-smallest-and-largest-field-scale"
    obs["res"] = res
    mon["traces_decided"] = 1
    if hier:
        mon["hier_traces_decided"] = 1
    # non-trivial: requested range reaches within 5 dT of, or beyond, a spinodal
    nontriv = False
    for side, reqT in (("lo", TMin), ("hi", TMax)):
        tend, kind = ends[side]
        if kind == "none":
            continue
        if (side == "lo" and reqT < tend + 5 * dT) or (side == "hi" and reqT > tend - 5 * dT):
            nontriv = True
    cls += [f"judged:{side}:{obs.get('end_' + side)}" for side in ("lo", "hi")]
    if "minimiser_hop" in obs:
        cls.append("minimiser-hop-seen")
    for sd, pl in placed.items():
        if pl.get("status") != "placed":
            cls.append(f"ulpstep:{sd}:{pl.get('status')}")
            continue
        # achieved?  read off the steps of the real trace: the predicted step was taken, and
        # for an end beyond it the integration went on to the end from there
        stp = rec.steps_of(0 if sd == "hi" else 1)
        pl["achieved"] = bool(pl["step"] in stp[-2:]) if pl["ulps"] > 0 else \
            bool(len(stp) > 1 and abs(abs(stp[-1] - stp[-2]) / dT - 1.0) < 1e-9)
        if not pl["achieved"]:
            cls.append(f"ulpstep:{sd}:not-achieved")
            continue
        cls.append(f"ulpstep:{sd}:{'beyond' if pl['ulps'] > 0 else ('on' if pl['ulps'] == 0 else 'before')}")
        mon["ulpstep_ends"] = mon.get("ulpstep_ends", 0) + 1
        if pl["ulps"] > 0 and pl["remainder_below_1e-16_T0"]:
            # the situation in which a step-size-collapse test in units of T0 meets a
            # legitimate last step of a few ulp
            cls.append(f"ulpstep:{sd}:beyond:remainder-below-1e-16-T0")
    # ---- history: further tracePhase calls on the same object, each judged like the first
    if not viol:
        first_req = {**req, "first": first}
        for k, h in enumerate(case.get("retrace") or []):
            first_req = _retrace(pot, phase, fe, first_req, h, k, obs, viol, mon, cls)
            if first_req is None or viol:
                break
    return {"key": key, "cls": cls, "nontrivial": nontriv, "obs": obs, "viol": viol, "mon": mon}


def _retrace(pot, phase, fe, prev_req, h, k, obs, viol, mon, cls):
    """Call tracePhase once more on an already traced FreeEnergy and judge the outcome.

    prev_req describes the preceding call (raw request under "raw" from the second call
    on).  Returns the description of this call for the next one, or None when the history
    cannot be continued.  What correct code does here (read off tracePhase): the request is
    clipped to the range advertised before the call, which lies 2 dT_prev inside the previous
    table, so the new table must span exactly the clipped range; nothing new can be learnt
    about the ends, so what the flags say must not be lost."""
    T0 = prev_req["T0"]
    raw_prev = prev_req.get("raw", [prev_req["TMin"], prev_req["TMax"]])
    adv = [float(fe.minPossibleTemperature[0]), float(fe.maxPossibleTemperature[0])]
    flags = [bool(fe.minPossibleTemperature[1]), bool(fe.maxPossibleTemperature[1])]
    X1 = np.array(fe._interpolationPoints, dtype=float)
    Y1 = np.array(fe._interpolationValues, dtype=float)
    mon["retraces_planned"] = mon.get("retraces_planned", 0) + 1
    if not (adv[0] < T0 < adv[1]):
        # the advertised range does not contain the starting temperature (start within 2 dT
        # of a table end): outside the stated assumption, not exercised
        cls.append("retrace:skipped:start-outside-advertised-range")
        return None
    raw = []
    for i, side in enumerate(("lo", "hi")):
        m = h[side]
        sgn = -1.0 if side == "lo" else 1.0
        if m["mode"] == "same":
            v = raw_prev[i]
        elif m["mode"] == "wider":
            v = raw_prev[i] + sgn * m["x"] * prev_req["dT"]
            if side == "lo":
                v = max(v, 0.05 * T0)
        elif m["mode"] == "edge":
            v = adv[i]
        else:
            v = T0 + m["f"] * (adv[i] - T0)
        raw.append(float(v))
    eff = [max(adv[0], raw[0]), min(adv[1], raw[1])]
    dT = min(prev_req["dT"] * h["dT_mul"], (eff[1] - eff[0]) / 6.0)
    paranoid = prev_req["paranoid"] if h["paranoid"] == "same" else (not prev_req["paranoid"])
    first = prev_req.get("first")
    same_settings = (dT == prev_req["dT"] and paranoid == prev_req["paranoid"])
    if first is not None and not (same_settings and first <= 0.5 * min(eff[1] - T0, T0 - eff[0])):
        first = None
    rec = MinimiserRecorder(pot)
    rec.install()
    o = {"k": k, "spec": h, "raw": raw, "effective": eff, "dT": dT, "paranoid": paranoid,
         "prev_advertised": adv, "prev_flags": flags, "first_step": first}
    obs.setdefault("retrace", []).append(o)
    try:
        try:
            fe.tracePhase(raw[0], raw[1], dT, rTol=prev_req["rTol"], paranoid=paranoid,
                          phaseTracerFirstStep=first)
        finally:
            rec.remove()
            mon["minimiser_calls"] = mon.get("minimiser_calls", 0) + len(rec.calls)
    except BaseException as exc:
        if type(exc).__name__ == "CaseTimeout" or not isinstance(exc, Exception):
            raise
        from wgverif.oracles import c11_branches as B
        soft_in = [kind for (tend, kind) in B.end_types(pot, phase).values()
                   if B.soft(kind) and eff[0] - 5 * dT <= tend <= eff[1] + 5 * dT]
        if isinstance(exc, AssertionError) and "Temperature range negative" in str(exc) and soft_in:
            # the previous call had traced through a soft end (vev -> 0 / exchange of
            # stability), this one stopped at it (both admissible, see module docstring) and
            # what is left is shorter than 4 dT
            o["refused"] = str(exc)[:80]
            cls.append("retrace:refused-after-stopping-at-soft-end(not judged)")
            return None
        viol.append({"mech": "retrace-raises",
                     "msg": f"call #{k + 2} of tracePhase on the same object raised {exc!r}: asked "
                     f"[{raw[0]!r},{raw[1]!r}], advertised before [{adv[0]!r},{adv[1]!r}] (flags "
                     f"{flags}), T0={T0!r}, dT={dT!r}, paranoid={paranoid}; {6.0 * dT <= eff[1] - eff[0]} "
                     f"that 6 dT fit into the clipped range", "data": {**obs}})
        cls.append("retrace:raised")
        return None
    req = {"T0": T0, "TMin": eff[0], "TMax": eff[1], "dT": dT, "rTol": prev_req["rTol"],
           "paranoid": paranoid, "seed": prev_req.get("seed", 0) + 7919 * (k + 1),
           "retrace": {"k": k, "raw": raw, "prev_flags": flags, "prev_adv": adv}}
    o["res"] = judge_table(pot, phase, fe, req, rec, o, viol, mon)
    mon["retraces_decided"] = mon.get("retraces_decided", 0) + 1
    cls += [f"retrace:{side}:{h[side]['mode']}" for side in ("lo", "hi")]
    cls += [f"retrace:{side}:{o['retrace_' + side]}" for side in ("lo", "hi")
            if ("retrace_" + side) in o]
    cls += [f"retrace:{side}:edge:was-flagged" for i, side in enumerate(("lo", "hi"))
            if h[side]["mode"] == "edge" and flags[i] and str(o.get("retrace_" + side, "")).startswith("covered")]
    cls.append("retrace:dT:" + ("same" if dT == prev_req["dT"] else "finer"))
    cls.append("retrace:paranoid:" + h["paranoid"])
    # ---- same settings: the integration starts from the same point with the same step
    # control, so every abscissa the two tables share (all but the rows at the clipped ends)
    # must carry bit-identical values: what had been tabulated correctly stays as it was
    if same_settings and first == prev_req.get("first"):
        X2 = np.asarray(fe._interpolationPoints, dtype=float)
        Y2 = np.asarray(fe._interpolationValues, dtype=float)
        common, i1, i2 = np.intersect1d(X1, X2[1:-1], return_indices=True)
        mon["retrace_rows_compared"] = mon.get("retrace_rows_compared", 0) + int(common.size)
        o["rows_shared_with_previous_table"] = int(common.size)
        if common.size:
            diff = np.any(Y1[i1] != Y2[1:-1][i2], axis=1)
            if diff.any():
                j = int(np.nonzero(diff)[0][0])
                viol.append({"mech": "retrace-with-same-settings-changes-rows",
                             "msg": f"call #{k + 2} with the same dT, rTol, paranoid: "
                             f"{int(diff.sum())} of {common.size} shared abscissae carry different "
                             f"values, e.g. T={common[j]!r}: {Y1[i1][j].tolist()} -> "
                             f"{Y2[1:-1][i2][j].tolist()}", "data": {**o}})
    return {**req, "raw": raw, "first": first}


# ---------------------------------------------------------------------------- Tc case
def _case_tc(case):
    import WallGo
    from WallGo import Fields
    from wgverif.oracles import c11_branches as B
    pot, w0, tref, fref = _build(case)
    Tc = pot.Tc()
    lo = max(pot.exists("low")[0], pot.exists("high")[0])
    hi = min(pot.exists("low")[1], pot.exists("high")[1])
    rTol = case["rTol"]
    mon = {"tc_run": 1, "tc_decided": 0}
    key = f"tc:{case['spec']['family']}:{case['spec']['s']:g}:{rTol:g}:{int(case['paranoid'])}:{case['s'] % 9973}"
    # traced range: a fraction of the way from Tc to each coexistence end
    span_lo = Tc - max(lo, 0.5 * Tc)
    span_hi = hi - Tc
    TMin = Tc - case["cover"][0] * span_lo
    TMax = Tc + case["cover"][1] * span_hi
    # Tc must lie inside the advertised range [TMin+2dT, TMax-2dT] with >= 2 dT to spare
    c2 = case.get("cover2", [1.0, 1.0])
    TMin2 = Tc - c2[0] * (Tc - TMin)
    TMax2 = Tc + c2[1] * (TMax - Tc)
    dT = min(case["dT_frac"] * (TMax - TMin), (TMax2 - Tc) / 4.5, (Tc - TMin2) / 4.5)
    Tn = TMin2 + (0.1 + 0.8 * case["tn"]) * (TMax2 - TMin2)
    ranges = {"low": (TMin, TMax), "high": (TMin, TMax)}
    ranges[case.get("narrow", "low")] = (TMin2, TMax2)
    obs = {"Tc_exact": Tc, "coexistence": [lo, hi], "traced": ranges, "dT": dT,
           "rTol": rTol, "Tn": Tn, "model": dict(case["spec"])}
    pL = Fields(pot.to_code(B.branch(pot, "low", np.asarray(Tn))))
    pH = Fields(pot.to_code(B.branch(pot, "high", np.asarray(Tn))))
    th = WallGo.Thermodynamics(pot, Tn, pL, pH)
    viol = []
    recs = {}
    try:
        for name, fe in (("high", th.freeEnergyHigh), ("low", th.freeEnergyLow)):
            rec = MinimiserRecorder(pot)
            rec.install()
            try:
                fe.tracePhase(ranges[name][0], ranges[name][1], dT, rTol=rTol,
                              paranoid=case["paranoid"])
            finally:
                rec.remove()
            recs[name] = rec
        tc = th.findCriticalTemperature(dT=dT, rTol=rTol, paranoid=case["paranoid"])
    except Exception as exc:
        if type(exc).__name__ == "CaseTimeout":
            raise
        viol.append({"mech": "critical-temperature-raises",
                     "msg": f"tracing {ranges} (coexistence [{lo},{hi}], Tc={Tc}) or "
                     f"findCriticalTemperature raised {exc!r}", "data": obs})
        return {"key": key, "cls": ["tc:raised"], "nontrivial": True, "obs": obs, "viol": viol,
                "mon": mon}
    # P_trace on both phases (violations there are reported under their own mechanism)
    sub = {}
    for name, fe in (("high", th.freeEnergyHigh), ("low", th.freeEnergyLow)):
        o = {}
        req = {"T0": Tn, "TMin": ranges[name][0], "TMax": ranges[name][1], "dT": dT,
               "rTol": rTol, "paranoid": case["paranoid"], "seed": case["s"]}
        sub[name] = judge_table(pot, name, fe, req, recs[name], o, viol, mon)
    obs["tables"] = sub
    obs["Tc"] = tc
    mon["tc_decided"] = 1
    # tolerance: brentq stops within 2*(xtol + rtol*T) of the root of the interpolated
    # difference; the interpolated difference is off by at most the two value tolerances
    # (K*rTol*|V| is far too generous here: the observed table error is the spline model),
    # which moves the root by err/|d DeltaV/dT|.
    from scipy.interpolate import CubicSpline
    slope = abs(float(B.branch_dVdT(pot, "low", np.asarray(Tc)) - B.branch_dVdT(pot, "high", np.asarray(Tc))))
    errV = 0.0
    for name, fe in (("high", th.freeEnergyHigh), ("low", th.freeEnergyLow)):
        X = np.asarray(fe._interpolationPoints, dtype=float)
        Vb = B.branch_V(pot, name, X)
        Tq = np.linspace(max(X[0], Tc - 2 * dT), min(X[-1], Tc + 2 * dT), 41)
        e = np.abs(CubicSpline(X, Vb)(Tq) - B.branch_V(pot, name, Tq))
        # knot values: second order in the field error rTol*max(|phi|,T) of the tracer
        lm = float(np.abs(np.linalg.eigvalsh(np.asarray(pot.hess_phys(B.branch(pot, name, np.asarray(Tc)), Tc)))).max())
        fld = max(float(np.linalg.norm(B.branch(pot, name, np.asarray(Tc)))), Tc)
        errV += 2.0 * float(e.max()) + 0.5 * lm * (K_TOL * rTol * fld) ** 2 \
            + 64 * EPS * abs(float(B.branch_V(pot, name, np.asarray(Tc))))
    xtol = min(rTol * Tc, 0.5 * dT)
    tol = 2.0 * (xtol + rTol * Tc) + errV / slope
    obs.update(Tc_err=tc - Tc, Tc_tol=tol, Tc_tol_root=2.0 * (xtol + rTol * Tc),
               Tc_tol_table=errV / slope)
    if not abs(tc - Tc) <= tol:
        viol.append({"mech": "critical-temperature-off",
                     "msg": f"findCriticalTemperature={tc!r}, closed form {Tc!r}: diff "
                     f"{tc - Tc:.3e} > {tol:.3e} (root {2 * (xtol + rTol * Tc):.1e} + table "
                     f"{errV / slope:.1e})", "data": obs})
    # low-temperature phase favoured just below the returned value (and not above)
    d = max(3 * tol, 1e-6 * Tc)
    try:
        below = float(np.asarray(th.freeEnergyLow(tc - d).veffValue)) - float(np.asarray(th.freeEnergyHigh(tc - d).veffValue))
        above = float(np.asarray(th.freeEnergyLow(tc + d).veffValue)) - float(np.asarray(th.freeEnergyHigh(tc + d).veffValue))
        obs.update(dV_below=below, dV_above=above)
        if not (below < 0 < above):
            viol.append({"mech": "critical-temperature-wrong-ordering",
                         "msg": f"V_low - V_high = {below:.3e} at Tc-{d:.2e}, {above:.3e} at "
                         f"Tc+{d:.2e}: the low-temperature phase is not the favoured one "
                         f"just below the returned Tc={tc!r}", "data": obs})
    except Exception as exc:
        obs["ordering_probe_error"] = repr(exc)[:100]
    return {"key": key, "cls": [f"tc:{case['spec']['family']}", f"unit:{case['spec']['s']:g}"],
            "nontrivial": True, "obs": obs, "viol": viol, "mon": mon}


def run_case(case):
    if case["kind"] == "trace":
        return _case_trace(case)
    return _case_tc(case)


# --------------------------------------------------------------------------- evidence
def summarize(results, tier):
    def col(name, sub="res"):
        out = []
        for r in results:
            if r.get("viol"):
                continue          # residual statistics of the non-violating population only
            o = r.get("obs") or {}
            v = (o.get(sub) or {}).get(name) if sub else o.get(name)
            if isinstance(v, (int, float)):
                out.append(float(v))
        return out

    def stats(v):
        if not v:
            return None
        a = np.asarray(v)
        return {"n": int(a.size), "max": float(a.max()), "median": float(np.median(a)),
                "p99": float(np.percentile(a, 99))}
    ext = {"residuals_over_tolerance": {
        n: stats(col(n)) for n in ("excess_over_tol_max", "interp_excess_over_tol_max",
                                   "interp_V_over_tol_max", "V_mismatch_max",
                                   "spline_model_share", "interp_V_rel_max")}}
    tc = [abs(r["obs"]["Tc_err"]) / r["obs"]["Tc_tol"] for r in results
          if isinstance((r.get("obs") or {}).get("Tc_err"), (int, float)) and not r.get("viol")]
    ext["residuals_over_tolerance"]["Tc_err_over_tol"] = stats(tc)
    hops = [r["obs"]["minimiser_hop"] for r in results if "minimiser_hop" in (r.get("obs") or {})]
    ext["minimiser_hops_seen"] = len(hops)
    ext["minimiser_hop_examples"] = hops[:3]
    over = []
    for r in results:
        o = r.get("obs") or {}
        if o.get("end_hi") == "past" and "table_range" in o and not r["viol"]:
            over.append((o["table_range"][1] - o["exists"][1]) / o["exists"][1])
    ext["overshoot_past_upper_spinodal_rel"] = stats(over)
    # the same overshoot in units of rTol*T (what the slack K*max(rTol,1e-6)*T is set against),
    # the tracer's own gradient measure on the rows, and the Hessian margin
    ext["overshoot_hi_over_rTolT"] = stats([v for v in col("overshoot_hi_over_rTolT") if v > 0])
    ext["row_grad_over_T0cubed_over_rTol"] = stats(col("row_grad_over_T0cubed_over_rTol_max"))
    ext["min_hess_eig_over_tol"] = stats([-v for v in col("min_hess_eig_over_tol")])
    # soft ends: what the code did when the request reached one (never judged)
    soft = collections.Counter()
    for r in results:
        o = r.get("obs") or {}
        for side in ("lo", "hi"):
            sft = o.get(f"soft_{side}")
            if sft:
                soft[f"{sft['kind']}:{'traced-through' if sft['reached'] else 'stopped'}:"
                     f"flag={sft['flag']}"] += 1
    ext["soft_end_outcomes(not judged)"] = dict(soft)
    # per-field-scale workload: how far the table passed the fold in units of the slack, by
    # setting of the caller's mass-squared test; what the re-minimisation jumps looked like
    hier = [r for r in results if (r.get("obs") or {}).get("hier") and not r.get("viol")]
    ext["hier"] = {
        "traces": len(hier),
        "scale_ratio": stats([r["obs"]["hier"]["scale_ratio"] for r in hier]),
        "overshoot_over_slack:spinodal-on": stats(
            [(r["obs"].get("res") or {}).get("overshoot_hi_over_slack", 0.0) for r in hier
             if r["obs"]["hier"]["spinodal"] and "res" in r["obs"]]),
        "overshoot_over_slack:spinodal-off": stats(
            [(r["obs"].get("res") or {}).get("overshoot_hi_over_slack", 0.0) for r in hier
             if not r["obs"]["hier"]["spinodal"] and "res" in r["obs"]]),
        "jump_over_smallest_scale": stats(
            [r["obs"]["hier"]["reminimisation_jump_between_scales"]["over_min_scale"] for r in hier
             if "reminimisation_jump_between_scales" in r["obs"]["hier"]]),
        "jump_over_largest_scale": stats(
            [r["obs"]["hier"]["reminimisation_jump_between_scales"]["over_max_scale"] for r in hier
             if "reminimisation_jump_between_scales" in r["obs"]["hier"]])}
    ext["unconverged_minimisations_without_consequence"] = int(sum(
        1 for r in results
        if ((r.get("obs") or {}).get("res") or {}).get("start_gradient_unresolved_without_consequence")))
    mech = collections.Counter(v["mech"] for r in results for v in r["viol"])
    ext["violating_observations_by_mechanism"] = dict(mech)
    return ext
