"""C07 — covariance under a change of units (metamorphic relation between recorded runs of
the real pipeline: the same model at unit factor 1 and at factor s).

Every dimensionful input (fields, T_n, mass parameters, variation scales, phase guesses)
is multiplied by s and the potential by s^4 (wgverif.models.potentials does this from one
spec).  Dimensionless outputs must agree within the solver tolerances, dimensionful ones
must scale with the right power of s.  Comparison is stage-wise (phases -> traced ranges
-> equation of state -> hydrodynamics -> LTE -> wall solve) so that a divergence is
attributed to the first stage where it appears.
"""
from __future__ import annotations

import math

import numpy as np

from wgverif import env  # noqa: F401
from wgverif.checks import _meta as MT
from wgverif.models import potentials as P

PROPERTY = "C07"
RULE = ("zoo models poly1/poly2/bag1 with spinodal margins; reference run at unit factor 1, "
        "partner runs at factors from {1e-2,0.1,10,1e2} and log-uniform random; default and "
        "tightened tolerance settings.  Non-trivial: a pair whose reference run has a finite "
        "wall velocity (or, for hydrodynamics-only pairs, an interior LTE velocity); distinct "
        "by (model, settings, factor).")
ASSUMPTIONS = [
    "P_trace and P_margin (window top inside 0.995 of the tabulated ranges) are required of "
    "the reference run; others are counted as inadmissible",
    "tolerances: equation-of-state scalars K*(phaseTracerTol/alpha_n + hydro rtol), "
    "velocities from hydrodynamics K*(rtol + phaseTracerTol/alpha_n), v_w 3*errTol, widths "
    "and offsets calibrated (see TOL_* constants)",
]
CASE_TIMEOUT = 1800
CHUNK = 1
K = 30.0
TOL_WIDTH = 5e-2     # widths lag the pressure iteration (stops at pressRelErrTol=0.1):
                     # observed <= 2.3e-2 relative over 8 seeds; seeded changes move them >= 13 %
TOL_OFFSET = 2e-2    # absolute (offsets are O(1)); observed <= 2e-3
FLOORS = {
    "quick": {"distinct_nontrivial": 4, "mon": {"pairs_compared": 8, "solve_pairs": 3,
                                                "offeq_pairs": 2},
              "cls": {}},
    "thorough": {"distinct_nontrivial": 120, "mon": {"pairs_compared": 200, "solve_pairs": 120,
                                                     "offeq_pairs": 12}},
}
SETTINGS = {
    "default": {"M": 25, "N": 5, "errTol": 1e-3, "phaseTracerTol": 1e-6, "hydro_rtol": 1e-6},
    "tight": {"M": 25, "N": 5, "errTol": 3e-4, "phaseTracerTol": 1e-8, "hydro_rtol": 1e-8},
}


def worker_init():
    env.import_wallgo()


def generate(tier, seed):
    rng = np.random.default_rng(700 + seed)
    n = 12 if tier == "quick" else 40
    cases = []
    for i in range(n):
        r = rng.random()
        fam = "poly1" if r < 0.45 else ("poly2" if r < 0.9 else "bag1")
        gen = "random_poly2_thick" if fam == "poly2" and rng.random() < 0.5 else "random_" + fam
        spec = getattr(P, gen)(rng, s=1.0)
        if fam == "poly2":
            # which field comes first decides the sign of the relative offset
            spec["perm"] = [int(x) for x in rng.permutation(2)]
            spec["signs"] = [float(x) for x in rng.choice([-1.0, 1.0], size=2)]
        if tier == "quick":
            # both extremes every time: absolute numbers hidden in the code bite in one
            # direction only (small units: lengths > 1, gradients < 1; large units: T_n >> 1)
            factors = [1e-2, 1e2]
            settings = ["default"] if i % 3 else ["tight"]
        else:
            factors = [1e-2, 0.1, 10.0, 1e2, float(10 ** rng.uniform(-2, 2))]
            settings = ["default", "tight"]
        for st in settings:
            cases.append({"i": i, "spec": spec, "factors": factors, "setting": st,
                          "solve": bool(fam != "bag1" or rng.random() < 0.5)})
    # out-of-equilibrium solves (synthetic relaxation-time collision files, dimensionless in
    # units of T, so the same operator is valid in every unit system): the mean free path
    # and the grid tails are lengths that must follow the units too
    rng3 = np.random.default_rng(7700 + seed)
    for i in range(4 if tier == "quick" else 12):
        spec = P.random_poly1(rng3, s=1.0)
        while spec["a"] < 3:     # g = 20: negative enthalpy of the broken phase at 0.8 T_n
            spec = P.random_poly1(rng3, s=1.0)
        # weak enough for the whole window to stay inside the traced ranges (P_margin)
        Tc_ = P.build_potential(spec).Tc()
        spec["Tn_over_s"] = 1.0 + float(rng3.uniform(0.65, 0.85)) * (Tc_ - 1.0)
        spec["particles"] = [{"name": "top", "coupling": float(rng3.uniform(0.2, 0.6)),
                              "field": 0, "statistics": "Fermion", "dofs": 12}]
        cases.append({"i": 1000 + i, "spec": spec,
                      "factors": [1e-2, 1e2] if tier == "quick" else [1e-2, 0.1, 10.0, 1e2],
                      "setting": "default", "solve": True,
                      "cfg": {"offEq": True, "kappa": float(rng3.choice([0.1, 0.3, 1.0])),
                              "M": 25, "N": 5, "pressRelErrTol": 1e-2, "maxIterations": 40}})
    return cases


def rel(a, b):
    a, b = np.asarray(a, float), np.asarray(b, float)
    return float(np.max(np.abs(a - b) / (np.abs(a) + np.abs(b) + 1e-300) * 2))


def compare(ref, oth, s, cfg, viol, tag, pot1, pot_s):
    """Stage-wise comparison; returns dict of observed differences."""
    obs = {}
    aln = abs(ref["alN"])
    ptol = cfg["phaseTracerTol"]
    rtol = cfg["hydro_rtol"]
    eos_tol = K * (ptol / max(aln, 1e-6) + rtol)

    def fail(stage, q, d, tol, extra=""):
        viol.append({"mech": f"not-covariant:{stage}:{q}",
                     "msg": f"{tag}: {q} differs by {d:.3e} (tol {tol:.1e}) between unit "
                     f"factor 1 and {s:g} [{stage}] {extra}", "data": {"factor": s}})

    # --- phases (dimension 1)
    # value-level reading of "the same minimum" (DESIGN 2.3-5): the free-energy excess of
    # the partner's location over the reference's, relative to the free-energy difference
    # between the phases; the location itself only has to be right to 1e-2 (a wrong power
    # of s gives O(1))
    units_mech = False
    dV = abs(float(pot1.V_code(ref["phase_high"], ref["Tn"])[0])
             - float(pot1.V_code(ref["phase_low"], ref["Tn"])[0])) + 1e-300
    for ph in ("phase_high", "phase_low"):
        scale = max(np.max(np.abs(ref["phase_low"])), np.max(np.abs(ref["phase_high"])), 1e-300)
        d = float(np.max(np.abs(oth[ph] / s - ref[ph])) / scale)
        ex = abs(float(pot1.V_code(oth[ph] / s, ref["Tn"])[0])
                 - float(pot1.V_code(ref[ph], ref["Tn"])[0])) / dV
        obs[ph] = d
        obs[ph + "_excess"] = ex
        if d > 1e-2 or ex > 1e-5:
            # mechanism: scipy's BFGS stops on an *absolute* gradient norm (gtol, default
            # 1e-5, or the tol handed down by WallGo).  In the partner's units the
            # gradient at the location it returned is already below that number although
            # the location is not the minimum to any relative accuracy.
            g = np.linalg.norm(pot_s.grad_phys(pot_s.to_phys(np.atleast_2d(oth[ph])),
                                               oth["Tn"]))
            if g < 1.5e-5:
                viol.append({"mech": "not-covariant:minimiser-absolute-gradient-tolerance",
                             "msg": f"{tag}: at unit factor {s:g} the {ph} returned by "
                             f"validatePhaseInput is off by {d:.2e} of the field scale (free-"
                             f"energy excess {ex:.2e} of DeltaV) although |grad V| there is "
                             f"{g:.1e} < scipy's absolute gtol", "data": {"factor": s}})
                # keep comparing the later stages: tracePhase refines its own starting
                # point, so a known finding at this stage must not hide a divergence
                # further down the pipeline
                units_mech = True
                continue
            if d > 1e-2:
                fail("phases", ph, d, 1e-2)
            else:
                fail("phases", ph + " (free-energy excess / DeltaV)", ex, 1e-5)
    # --- traced ranges and flags: internal bookkeeping of the set-up, not a result the
    # property speaks about.  Recorded as diagnostics (they help to attribute a downstream
    # divergence), not judged.
    for k in ("H", "L"):
        for j in (0, 1):
            obs[f"range_{k}{j}_recorded"] = abs(ref["ranges"][k][j]
                                                - oth["ranges"][k][j] / s) / ref["Tn"]
        obs[f"flags_{k}_equal_recorded"] = ref["flags"][k] == oth["flags"][k]
    # --- equation of state at Tn
    # sound speeds involve the spline's second derivative: floor 1e-5 (observed <= 5e-6 at
    # phaseTracerTol 1e-8); a wrong power of s or a corrupted table gives >= 1e-2
    for q, tol in (("alN", eos_tol), ("psiN", eos_tol * aln),
                   ("cs2", max(eos_tol * aln * 10, 5e-5)),
                   ("cb2", max(eos_tol * aln * 10, 5e-5))):
        d = rel(ref[q], oth[q])
        obs[q] = d
        if d > tol + 1e-9:
            fail("eos", q, d, tol)
    for q, p in (("pN", 4), ("wN", 4)):
        d = rel(ref[q], oth[q] / s ** p)
        obs[q] = d
        if d > K * ptol + 1e-9:
            fail("eos", q + f"/s^{p}", d, K * ptol)
    # --- hydrodynamics
    hyd_tol = K * (rtol + ptol / max(aln, 1e-6))
    if ref["fastestDeflag"] == ref["vJ"] and oth["fastestDeflag"] == oth["vJ"]:
        d = abs(ref["vJ"] - oth["vJ"])
        obs["vJ"] = d
        if d > hyd_tol:
            fail("hydro", "vJ", d, hyd_tol)
    else:
        obs["vJ_beyond_range_recorded"] = abs(ref["vJ"] - oth["vJ"])
    if ref["fastestDeflag"] == ref["vJ"] or oth["fastestDeflag"] == oth["vJ"]:
        # window not cut by a phase's range in at least one run: must agree
        d = abs(ref["fastestDeflag"] - oth["fastestDeflag"])
        obs["fastestDeflag"] = d
        if d > hyd_tol:
            fail("hydro", "fastestDeflag", d, hyd_tol)
            # mechanism: the run whose window is "cut" did not reach a table end (both runs
            # have the same ranges) -- its matchings just below vJ are template fallbacks /
            # non-converged solves, whose temperatures make fastestDeflag's root search stop
            tm = {nm: [t for t in r_.get("top_matchings", []) if "branch" in t]
                  for nm, r_ in (("reference", ref), ("partner", oth))}
            first = [t for nm in tm for t in tm[nm] if t["dv"] == 1e-3]
            if first and any(t["branch"] == "template-fallback" for t in first):
                viol[-1]["mech"] = "not-covariant:fastestDeflag-from-nonconverged-matching-below-vJ"
                viol[-1]["msg"] += f" | matchings just below vJ (call-site monitor): {tm}"
                obs["_fd_from_fallback"] = True
    else:
        # cut by the end of a tabulated range: root of T(v)=Tmax on a flat T(v); its
        # conditioning is C06's subject.  Recorded only (P_margin).
        obs["fastestDeflag_cut_recorded"] = abs(ref["fastestDeflag"] - oth["fastestDeflag"])
    d = abs(ref["vMin"] - oth["vMin"])
    obs["vMin"] = d
    if d > max(hyd_tol, 1e-4):
        fail("hydro", "vMin", d, max(hyd_tol, 1e-4))
    # --- LTE (sentinel equality outside the margin)
    a, b = ref["vLTE"], oth["vLTE"]
    if (a in (0.0, 1.0)) or (b in (0.0, 1.0)):
        if a != b:
            interior = a if 0 < a < 1 else b
            if 0 < interior < 1 and min(interior - ref["vMin"], ref["vJ"] - interior) < 1e-2:
                obs["vLTE"] = "excluded-by-margin"
            else:
                fail("lte", "vLTE sentinel", abs(a - b), 0.0, f"({a} vs {b})")
        else:
            obs["vLTE"] = 0.0
    else:
        d = abs(a - b)
        obs["vLTE"] = d
        if d > 10 * hyd_tol:
            fail("lte", "vLTE", d, 10 * hyd_tol)
    # --- fixed-velocity probe of the real wallPressure (converged iteration, same starting
    # parameters in units of 1/T_n): compared also when the outcome is RUNAWAY
    pr, po = ref.get("probe"), oth.get("probe")
    if pr and po and "error" not in pr and "error" not in po and pr["ok"] and po["ok"]:
        scaleP = max(abs(pr["P_over_Tn4"]), abs(po["P_over_Tn4"]), 1e-300)
        dP = abs(pr["P_over_Tn4"] - po["P_over_Tn4"]) / scaleP
        dwp = rel(pr["widths"] * ref["Tn"], po["widths"] * oth["Tn"])
        dop = float(np.max(np.abs(pr["offsets"] - po["offsets"])))
        obs["probe_P"], obs["probe_widths"], obs["probe_offsets"] = dP, dwp, dop
        hit = False
        if dP > 0.1:
            fail("solve", "probe pressure/Tn^4", dP, 0.1, f"at v_w={pr['vw']:.4f}")
            hit = True
        if dwp > TOL_WIDTH:
            fail("solve", "probe widths*Tn", dwp, TOL_WIDTH)
            hit = True
        if dop > TOL_OFFSET:
            fail("solve", "probe offsets", dop, TOL_OFFSET)
            hit = True
        if hit:
            obs["_solve_diverged_at"] = [pr["vw"]]
    # --- wall solve
    if "vw" in ref and "vw" in oth:
        if (ref["vw"] is None) != (oth["vw"] is None) or ref["solutionType"] != oth["solutionType"]:
            fail("solve", "outcome", 1.0, 0.0,
                 f"({ref['solutionType']}, v={ref['vw']} vs {oth['solutionType']}, v={oth['vw']})")
            if obs.get("_fd_from_fallback"):
                # consequence of the different search windows
                viol[-1]["mech"] = "not-covariant:fastestDeflag-from-nonconverged-matching-below-vJ"
            cands = [max(ref["vMin"], 1e-3), 0.999 * min(ref["vJ"], ref["fastestDeflag"])]
            cands += [r_["vw"] for r_ in (ref, oth) if r_.get("vw") is not None]
            obs["_solve_diverged_at"] = cands
        elif ref["vw"] is not None and ref["success"] and oth["success"]:
            d = abs(ref["vw"] - oth["vw"])
            obs["vw"] = d
            if d > 3 * cfg["errTol"]:
                fail("solve", "wallVelocity", d, 3 * cfg["errTol"])
                obs["_solve_diverged_at"] = 0.5 * (ref["vw"] + oth["vw"])
            dw = rel(ref["widths"] * ref["Tn"], oth["widths"] * oth["Tn"])
            obs["widths"] = dw
            # the width tolerance was calibrated at the default pressRelErrTol = 0.1 (the
            # widths lag the pressure iteration); it scales with that setting
            prel = float(cfg.get("pressRelErrTol", 0.1)) / 0.1
            if dw > TOL_WIDTH * prel:
                fail("solve", "widths*Tn", dw, TOL_WIDTH * prel)
            do = float(np.max(np.abs(ref["offsets"] - oth["offsets"])))
            obs["offsets"] = do
            if do > TOL_OFFSET:
                fail("solve", "offsets", do, TOL_OFFSET)
            for q in ("Tplus", "Tminus"):
                d = abs(ref[q] / ref["Tn"] - oth[q] / oth["Tn"])
                obs[q] = d
                # T+- follow v_w: |dT/dv| ~ T_n/(few); bounded by the v_w tolerance
                if d > 3 * cfg["errTol"] + hyd_tol:
                    fail("solve", q + "/Tn", d, 3 * cfg["errTol"] + hyd_tol)
            if "Delta00_max_over_Tn2" in ref and "Delta00_max_over_Tn2" in oth:
                a_, b_ = ref["Delta00_max_over_Tn2"], oth["Delta00_max_over_Tn2"]
                d = abs(a_ - b_) / max(abs(a_), abs(b_), 1e-300)
                obs["Delta00"] = d
                # the out-of-equilibrium moments follow v_w and the width (both judged
                # above at 3 errTol / 5e-2); 1e-1 leaves room for that
                if d > 1e-1 * prel:
                    fail("solve", "Delta00/Tn^2", d, 1e-1 * prel)
            fs = np.max(np.abs(ref["fieldProfiles"])) + 1e-300
            d = float(np.max(np.abs(oth["fieldProfiles"] / s - ref["fieldProfiles"])) / fs)
            # node-wise values live on two grids whose scales and centres follow the
            # (slightly different) wall parameters: recorded only (thorough tier, unchanged
            # tree: 0.145).  Judged: the end points (the vevs at T-+), like C08; the shape
            # is judged through widths and offsets above.
            obs["fieldProfiles_nodewise_recorded"] = d
            for idx, name in ((0, "low-T end"), (-1, "high-T end")):
                d = float(np.max(np.abs(oth["fieldProfiles"][idx] / s
                                        - ref["fieldProfiles"][idx])) / fs)
                obs[f"profile_{name}"] = d
                if d > 5e-3:
                    fail("solve", f"fieldProfiles/s {name}", d, 5e-3)
    return obs, units_mech


def run_case(case):
    spec = dict(case["spec"])
    cfg = dict(SETTINGS[case["setting"]], **case.get("cfg", {}))
    mon = {"pipelines": 0, "pairs_compared": 0, "solve_pairs": 0, "offeq_pairs": 0}
    key0 = f"{spec['family']}:{case['i']}:{case['setting']}"
    viol, classes, keys = [], [], []
    try:
        ref = MT.pipeline({**spec, "s": 1.0}, cfg, solve=case["solve"])
        mon["pipelines"] += 1
    except Exception as exc:
        return {"key": key0, "cls": "reference-failed", "nontrivial": False,
                "obs": {"error": repr(exc)[:300], "spec": spec}, "viol": [], "mon": mon}
    pot1 = ref.pop("_pot", None)
    if "raised" in ref:
        return {"key": key0, "cls": "reference-failed", "nontrivial": False,
                "obs": {"error": ref["raised"], "spec": spec}, "viol": [], "mon": mon}
    if not ref["p_trace"]:
        return {"key": key0, "cls": "inadmissible(P_trace)", "nontrivial": False,
                "obs": {"why": ref["p_trace_why"], "spec": spec}, "viol": [], "mon": mon}
    mu = [x for x in ref.get("mu_ends", []) if np.isfinite(x)]
    me = ref.get("mu_ends", [np.nan] * 4)
    # lower table ends: c_s^2 < 1/60 means the enthalpy all but vanishes there; upper ends
    # next to a spinodal legitimately reach mu ~ 100 (c_s^2 -> 0 at the spinodal)
    if mu and (max([x for x in (me[0], me[2]) if np.isfinite(x)] or [0]) > 60
               or max(mu) > 300 or min(mu) < 2):
        return {"key": key0, "cls": "inadmissible(P_eos)", "nontrivial": False,
                "obs": {"mu_ends": ref.get("mu_ends"), "spec": spec}, "viol": [], "mon": mon}
    mg = ref.get("margin", {})
    if "error" in mg or mg.get("TpTop_over_TMaxH", 1) > 0.995 or mg.get("TmTop_over_TMaxL", 1) > 0.995:
        return {"key": key0, "cls": "inadmissible(P_margin)", "nontrivial": False,
                "obs": {"margin": mg, "spec": spec}, "viol": [], "mon": mon}
    rows = []
    for s in case["factors"]:
        tag = f"{spec['family']} #{case['i']} ({case['setting']})"
        try:
            oth = MT.pipeline({**spec, "s": float(s)}, cfg, solve=case["solve"])
            mon["pipelines"] += 1
        except Exception as exc:
            viol.append({"mech": "not-covariant:pipeline-raises",
                         "msg": f"{tag}: pipeline at unit factor {s:g} raised {exc!r}"[:400]
                         + " while the reference run succeeded", "data": {"factor": s}})
            classes.append("partner-raised")
            continue
        pot_s = oth.pop("_pot", None)
        sp_o = oth.get("spacing", {})
        sp_r = ref.get("spacing", {})
        dup = [k for k in ("H", "L") if sp_o.get(k, {}).get("at_start")
               and sp_o[k]["min_over_median"] < 1e-3
               and not (sp_r.get(k, {}).get("min_over_median", 1) < 1e-3)]
        if "raised" in oth:
            mech = "not-covariant:pipeline-raises"
            if dup:
                mech = "not-covariant:first-step-absolute-duplicate-abscissa"
            viol.append({"mech": mech,
                         "msg": f"{tag}: set-up at unit factor {s:g} raised {oth['raised']} "
                         f"while the reference run succeeded (table spacing {sp_o})",
                         "data": {"factor": s}})
            classes.append("partner-raised")
            continue
        if not oth["p_trace"]:
            # the same model traced fine at s=1: tracing that depends on units
            mech = "not-covariant:trace-leaves-branch"
            gmax = max(np.linalg.norm(pot_s.grad_phys(pot_s.to_phys(np.atleast_2d(oth[ph])),
                                                      oth["Tn"]))
                       for ph in ("phase_high", "phase_low"))
            fs = pot_s.field_scale(oth["Tn"])
            off = max(float(np.max(np.abs(oth[ph] / s - ref[ph]))) for ph in
                      ("phase_high", "phase_low")) / (fs / s)
            if (oth.get("phases_equal_guesses") and not ref.get("phases_equal_guesses")) or \
                    (gmax < 1.5e-5 and off > 1e-4):
                # in these units the minimiser returned the input guesses untouched: the
                # gradient tolerance scipy derives from tol is absolute (gtol), while the
                # gradients themselves scale like s^3
                mech = "not-covariant:minimiser-absolute-gradient-tolerance"
            viol.append({"mech": mech,
                         "msg": f"{tag}: at unit factor {s:g} {oth['p_trace_why']} although "
                         f"the reference run stayed on its branches (minimiser calls without an "
                         f"iteration: {oth['minimiser']} vs reference {ref['minimiser']})",
                         "data": {"factor": s}})
            classes.append("partner-off-branch")
            continue
        nv = len(viol)
        o, units_mech = compare(ref, oth, float(s), cfg, viol, tag, pot1, pot_s)
        outl = [k for k in ("H", "L")
                if (sp_o.get(k, {}).get("start_row_jump_over_neighbour_spread", 0) > 5
                    and sp_o[k].get("start_row_jump_over_scale", 0) >
                    10 * sp_r.get(k, {}).get("start_row_jump_over_scale", 0))
                # or: the row located by the minimiser sits >= 8x farther off the smooth curve
                # through its ODE-located neighbours than in the reference run, by both
                # measures (thorough tier: c_s^2 off by 8e-4 / c_b^2 by 8e-5 with ratios 49x
                # and 11x; the row is no gross outlier, but the kink is the same mechanism)
                or (sp_o.get(k, {}).get("start_row_jump_over_neighbour_spread", 0) >=
                    8 * sp_r.get(k, {}).get("start_row_jump_over_neighbour_spread", np.inf)
                    and sp_o[k].get("start_row_jump_over_scale", 0) >=
                    8 * sp_r.get(k, {}).get("start_row_jump_over_scale", np.inf))]
        if outl and not dup and any(x["mech"].startswith(("not-covariant:eos",
                                                          "not-covariant:hydro",
                                                          "not-covariant:lte"))
                                    for x in viol[nv:]):
            # the table row at T_n (located by scipy's minimiser with its own numerical
            # gradient: absolute step 1.5e-8 for a field near zero, whatever the units) sits
            # off the smooth curve through its ODE-located neighbours: a kink of p(T) exactly
            # at T_n
            for x in viol[nv:]:
                if x["mech"].startswith("not-covariant:") and not x["mech"].endswith("gradient-tolerance"):
                    x["msg"] += f" | start row vs neighbours {sp_o}"
                    x["mech"] = "not-covariant:start-row-outlier-minimiser-finite-difference-step"
        if dup and any(x["mech"].startswith(("not-covariant:eos", "not-covariant:hydro",
                                             "not-covariant:lte")) for x in viol[nv:]):
            # the partner's table has two abscissae ~1e-6 (absolute, in its own units) apart
            # at the starting temperature: scipy's RK45 falls back to an *absolute* first
            # step of 1e-6 when the state is ~0 (symmetric phase); the cubic spline's second
            # derivative is then noise exactly at T_n, where c_s^2, alpha_n, vJ are taken
            for x in viol[nv:]:
                if x["mech"].startswith("not-covariant:") and not x["mech"].endswith("gradient-tolerance"):
                    x["msg"] += f" | table spacing at T_n (min/median) {sp_o}"
                    x["mech"] = "not-covariant:first-step-absolute-duplicate-abscissa"
        from wgverif.checks.C08 import reclassify_solve
        reclassify_solve(viol, nv, o, {**spec, "s": 1.0}, cfg, mon)
        if units_mech:
            classes.append("partner-minimiser-not-converged")
        mon["pairs_compared"] += 1
        rows.append({"factor": s, **o})
        nontriv = (case["solve"] and ref.get("vw") is not None) or (0 < ref["vLTE"] < 1)
        if case["solve"] and ref.get("vw") is not None:
            mon["solve_pairs"] += 1
            if cfg.get("offEq") and "Delta00" in o:
                mon["offeq_pairs"] += 1
                classes.append("pair:solve-offeq")
        classes.append("pair:" + ("solve" if case["solve"] else "hydro"))
        if nontriv:
            keys.append(f"{key0}:{s:.6g}")
    obs = {"spec": spec, "setting": case["setting"],
           "reference": {k: ref[k] for k in ("alN", "vJ", "vLTE", "vMin") if k in ref},
           "ref_vw": ref.get("vw"), "rows": rows}
    return {"key": key0, "cls": classes or ["no-pairs"], "nontrivial": bool(keys), "obs": obs,
            "viol": viol, "mon": mon, "keys": keys}


def summarize(results, tier):
    agg = {}
    for r in results:
        for row in r["obs"].get("rows", []) if isinstance(r["obs"], dict) else []:
            for k, v in row.items():
                if k != "factor" and isinstance(v, (int, float)):
                    agg.setdefault(k, []).append(v)
    return {"observed_differences_max": {k: float(np.max(v)) for k, v in agg.items()},
            "observed_differences_median": {k: float(np.median(v)) for k, v in agg.items()}}
