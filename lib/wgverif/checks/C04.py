"""C04 — the plasma profile inside the wall conserves T^{30} and T^{33} pointwise and tends
to the hydrodynamic matching values far from the wall, on every branch.

Contract on the real ``EOM.findPlasmaProfile`` (with a recording wrapper on the real
``EOM.findPlasmaProfilePoint`` for attribution) of EOM objects built by the real
WallGoManager on zoo potentials with closed-form phases and analytic dV/dT.  Boundary
constants c1, c2, T+, T-, velocityMid come from the real
``Hydrodynamics.findHydroBoundaries(v_w)``, the grid from the real ``EOM._updateGrid``,
fields and dPhi/dz from the real ``EOM.wallProfile``.

Oracle (``oracles/c04_ref.py``; never calls temperatureProfileEqLHS / plasmaVelocity /
deltaToTmunu): for every point with T > 0
    w   = -T dV/dT(phi, T)                      analytic derivative of the zoo potential
    T30 = w gamma^2 v   + T30_out
    T33 = 1/2 sum (d_z phi)^2 - V + w gamma^2 v^2 + T33_out
    T_out: plasma-frame tensor (D20, D11, D02, (D20-D02-m^2 D00)/2) boosted with the
           explicit 4x4 Lorentz matrix at velocityMid, summed with the dofs
    R1 = (T30 - c1)/|c1|,  R2 = (T33 - c2)/(|c2| + w)

Tolerances (all evaluated for the point at hand):
    tau1 = 32 * (rounding bound of the code's 4th-order finite-difference dV/dT, which is
           exact on T^4 polynomials otherwise) + 64 eps.  The code solves T30 = c1 for v
           algebraically, so R1 only sees the difference between its FD enthalpy and the
           analytic one (observed |R1| <= 1e-10, <= 0.45 of the bound with factor 8).
    tau2 (point returned from a root): spread of the oracle's own T33 (on the T30 shell)
           over T +- 2 (xtol + rtol T) with the point solver's xtol = 1e-10,
           rtol = errTol/10 (DESIGN 2.3-2) + tau1-type rounding + 4 (|r1| + |r2|), r1, r2
           the flux residuals of the hydrodynamic matching on the closed-form equation of
           state (c1, c2 are only that consistent; at a hybrid's sonic point the existence
           of a root depends on them at exactly that level).  Observed <= 0.22 of tau2.
    tau2 (point returned from the "minimum >= 0, no root" branch, observed through a proxy
           for the name ``scipy`` in WallGo.equationOfMotion that logs root_scalar /
           minimize_scalar calls): errTol/10 relative + the same rounding terms, i.e. a
           returned minimiser counts as a solution when it misses c2 by less than the
           relative tolerance the root finder is configured for.
    points with T > 0 are judged one by one; the recorder raises successTemperatureProfile
           before each point call and restores the conjunction afterwards, so a point
           routine that lowers the flag itself (proposed fix) is seen as "reported failure"
           and not judged.
    contract on findHydroBoundaries: velocityMid == -(v+ + v-)/2 (8 eps), c1/c2 within
           5e-3 of -w g^2 v+ / p + w g^2 v+^2 on the closed-form high-T phase (tables vs
           closed form observed <= 2e-4); the oracle's boost uses its own -(v+ + v-)/2.
    far field (the two end points, judged whatever happened in the middle of the wall):
           dev = max(|T-T_ref|/T_ref, |v+v_ref|) against (T+, -v+) at the last and (T-, -v-)
           at the first grid point;
           tol = [K_REF r_ref + K_FAR (rtol + xtol/T)] / max(|1 - v_ref^2/c_s^2|, 0.02) + 1e-6
           where r_ref = |R1| + |R2| of the *matching values themselves* in the oracle's
           closed-form equations at that grid point (this measures at once the field tail
           sech^2(z_end/L+delta), an end point slightly off the minimum, the accuracy of
           the tables behind c1/c2 and of the matching).  DESIGN's 10 sech^2 + 1e-4 fired
           on correct code for s ~ 1e-2, where findLocalMinimum's absolute tolerance leaves
           the phases 1e-3 off and r_ref ~ 3e-4.  Hybrid, behind the wall: the sonic point
           is a double root, a perturbation p moves it by ~sqrt(p):
           + 3 sqrt(pert) + 4e-5/T- (minimize_scalar's absolute xatol).
           "No solution" at an end point is a violation (a solution exists there).
           K_REF = 20 calibrated: observed dev/tol <= 0.46 with K_REF = 10 (quick seeds 0-4)
           (far_over_tol); a wrong root branch gives dev >= 4e-2 at r_ref <= 1e-3.
"""
from __future__ import annotations

import math

import numpy as np

from wgverif import env  # noqa: F401
from wgverif.checks import _manager as MG
from wgverif.models import potentials as P
from wgverif.oracles import c04_ref as R

PROPERTY = "C04"
RULE = ("one real WallGoManager/EOM per case on a random zoo potential (poly1, poly2, bag1) "
        "with one out-of-equilibrium fermion (12 dofs, m^2 = phi^2/2) in the model, unit "
        "factor s in [1e-2,1e2], M in {20,30,40}, errTol in {1e-3,1e-5,1e-8} (point solver "
        "rtol = errTol/10); per case n_v wall velocities drawn by branch quota (deflagration "
        "/ hybrid / detonation = 25/25/50 %) and kept when P_window holds, each with two "
        "random tanh shapes (L*Tn log-uniform in [1,30], second width within a factor 3, "
        "offsets in [-2,2], first offset 0) and moments that are zero (50 %) or random "
        "degree<=4 polynomials times (1-chi^2) with |T_out| <= 1e-3 of the equilibrium "
        "stress.  A profile is non-trivial when at least one point was judged; distinct by "
        "(potential, M, errTol, v_w, shape, moments).")
ASSUMPTIONS = [
    "closed-form V, dV/dT of the zoo potentials (float64) are the reference",
    "P_window: T+ inside the tabulated range of the high-T phase and T- inside that of the "
    "low-T phase; P_trace: both end points within 1e-3 S of the closed-form minima; "
    "P_matching: the matching conserves both fluxes on the closed-form EOS to 2e-3 "
    "(else C02/C10 business); profiles failing a predicate are counted, not judged",
    "scipy brentq returns a point within xtol + rtol |x| of a sign change",
    "far-field tolerance: propagated from the residual of the matching values at the end "
    "grid point, with calibrated safety factors K_REF = 20, K_FAR = 5 (see module docstring)",
    "unit factors outside [1e-2, 1e2] are not exercised (the branch test |Tn - T+| < 1e-10 "
    "and minimize_scalar's xatol = 1e-5 are absolute in temperature units)",
]
CASE_TIMEOUT = 900
CHUNK = 1
MS = (20, 30, 40)
ERRTOLS = (1e-3, 1e-5, 1e-8)
K_FAR = 5.0
K_REF = 20.0
EPS = float(np.finfo(float).eps)
PARTICLE = {"coupling": 0.5, "field": 0, "statistics": "Fermion", "dofs": 12}

FLOORS = {
    "quick": {"distinct_nontrivial": 150,
              "mon": {"findPlasmaProfile": 150, "findPlasmaProfilePoint": 3500,
                      "points_judged": 3500, "far_field_judged": 300,
                      "points_detonation": 1100, "points_hybrid": 350,
                      "profiles_with_moments": 50},
              "cls": {"deflagration": 30, "hybrid": 15, "detonation": 45,
                      "poly1": 20, "poly2": 30, "bag1": 30}},
    "thorough": {"distinct_nontrivial": 2200,
                 "mon": {"findPlasmaProfile": 2200, "findPlasmaProfilePoint": 55000,
                         "points_judged": 55000, "far_field_judged": 4400,
                         "points_detonation": 17000, "points_hybrid": 5500,
                         "profiles_with_moments": 800},
                 "cls": {"deflagration": 450, "hybrid": 220, "detonation": 700,
                         "poly1": 350, "poly2": 500, "bag1": 500}},
}


SOLVER_LOG = []     # per process: names of the scipy.optimize routines the EOM module called


class _OptimizeProxy:
    """stands in for the name ``scipy`` inside WallGo.equationOfMotion only: every attribute
    is the real scipy.optimize one, root_scalar / minimize_scalar additionally leave a mark
    in SOLVER_LOG so that the monitor *observes* which branch findPlasmaProfilePoint took
    (root found / minimum returned because it has no root / no solution)."""

    def __init__(self):
        import scipy.optimize as so
        self._so = so

    def __getattr__(self, name):
        real = getattr(self._so, name)
        if name in ("root_scalar", "minimize_scalar"):
            def logged(*a, **k):
                res = real(*a, **k)
                SOLVER_LOG.append((name, float(getattr(res, "root", getattr(res, "x", math.nan)))))
                return res
            return logged
        return real


class _ScipyProxy:
    def __init__(self):
        self.optimize = _OptimizeProxy()


def worker_init():
    env.import_wallgo()
    import WallGo.equationOfMotion as EM
    if not isinstance(EM.scipy, _ScipyProxy):
        EM.scipy = _ScipyProxy()


def generate(tier, seed):
    rng = np.random.default_rng(4000 + seed)
    ncase, nv = (27, 4) if tier == "quick" else (270, 6)
    fams = ("poly1", "poly2", "bag1")
    cases = []
    for i in range(ncase):
        fam = fams[i % 3]
        spec = getattr(P, "random_" + fam)(rng)
        spec["particles"] = [dict(PARTICLE)]
        cases.append({"i": i, "family": fam, "spec": spec, "M": int(MS[(i // 3) % 3]),
                      "errTol": float(ERRTOLS[(i // 9) % 3]), "nv": nv,
                      "s": int(rng.integers(1 << 30))})
    return cases


class PointRecorder:
    """recording wrapper around the bound EOM.findPlasmaProfilePoint."""

    def __init__(self, bound, eom):
        self.bound = bound
        self.eom = eom
        self.rows = []
        self.raised = None

    def __call__(self, index, *args, **kw):
        del SOLVER_LOG[:]
        # per-point view of the success flag: raise it before the call, see whether this
        # point lowers it, then restore the conjunction (the unchanged code never touches
        # the flag inside the point routine; a repaired one may)
        saved = bool(self.eom.successTemperatureProfile)
        self.eom.successTemperatureProfile = True
        try:
            out = self.bound(index, *args, **kw)
        except Exception as exc:
            self.raised = (index, repr(exc)[:200])
            self.eom.successTemperatureProfile = saved
            raise
        point_ok = bool(self.eom.successTemperatureProfile)
        self.eom.successTemperatureProfile = saved and point_ok
        names = [n for n, _ in SOLVER_LOG]
        if "root_scalar" in names:
            br = "root"
        elif float(out[0]) > 0:
            br = "minimum-returned"
        else:
            br = "no-solution"
        if "minimize_scalar" not in names:
            br = "unobserved"
        self.rows.append((int(index), float(out[0]), float(out[1]), br, point_ok))
        return out


def make_deltas(eom, arr):
    from WallGo.containers import BoltzmannDeltas
    from WallGo.polynomial import Polynomial

    def poly(a):
        return Polynomial(np.array(a, dtype=float), eom.grid, direction=("Array", "z"),
                          basis=("Array", "Cardinal"))
    return BoltzmannDeltas(Delta00=poly(arr[0]), Delta02=poly(arr[1]), Delta20=poly(arr[2]),
                           Delta11=poly(arr[3]))


def draw_velocity(rng, branch, hyd, cs_low):
    lo = max(hyd.vMin, 0.0) + 0.012      # slower walls: C02's known matching finding
    if branch == "deflagration":
        hi = min(cs_low, hyd.vJ) - 0.01
        return float(rng.uniform(lo, hi)) if hi > lo else None
    if branch == "hybrid":
        a, b = cs_low + 0.003, hyd.vJ - 0.003
        return float(rng.uniform(a, b)) if b > a else None
    a = hyd.vJ + 0.004
    return float(rng.uniform(a, 0.985)) if a < 0.985 else None


def draw_shape(rng, nf, Tn):
    L0 = float(10 ** rng.uniform(0.0, math.log10(30.0))) / Tn
    widths = [L0]
    if nf == 2:
        lo, hi = max(L0 / 3.0, 0.5 / Tn), min(L0 * 3.0, 60.0 / Tn)
        widths.append(float(math.exp(rng.uniform(math.log(lo), math.log(hi)))))
    offsets = [0.0] + [float(rng.uniform(-2, 2)) for _ in range(nf - 1)]
    return np.array(widths), np.array(offsets)


def run_case(case):
    import WallGo
    rng = np.random.default_rng(case["s"])
    spec, fam, M = case["spec"], case["family"], case["M"]
    mon = {"findPlasmaProfile": 0, "findPlasmaProfilePoint": 0, "points_judged": 0,
           "far_field_judged": 0, "points_detonation": 0, "points_hybrid": 0,
           "points_deflagration": 0, "profiles_with_moments": 0, "points_no_solution": 0,
           "points_minimum_returned": 0, "points_root": 0, "findHydroBoundaries": 0}
    key0 = f"{fam}:{case['i']}:M{M}:e{case['errTol']:g}"
    try:
        b = MG.build(spec, {"M": M, "N": 5, "errTol": case["errTol"]})
        ws = b["manager"].setupWallSolver(MG.wall_settings({"offEq": False}))
    except WallGo.WallGoError as exc:
        return {"key": key0, "cls": "model-rejected-by-manager", "nontrivial": False,
                "obs": {"error": repr(exc)[:300]}, "viol": [], "mon": mon}
    except Exception as exc:
        return {"key": key0, "cls": "construction-error", "nontrivial": False,
                "obs": {"error": repr(exc)[:300]}, "viol": [],
                "inconclusive": "manager construction failed: " + repr(exc)[:200], "mon": mon}
    return _drive(case, rng, b, ws, mon, key0)


def _drive(case, rng, b, ws, mon, key0):
    from WallGo.containers import WallParams
    fam, M = case["family"], case["M"]
    eom, pot, Tn = ws.eom, b["pot"], b["Tn"]
    hyd, thermo, grid = eom.hydrodynamics, eom.thermo, eom.grid
    nf = pot.fieldCount
    npart = len(eom.particles)
    assert npart == 1 and eom.includeOffEq is False and grid.M == M
    assert abs(eom.errTol - case["errTol"]) < 1e-30
    dofs = [p.totalDOFs for p in eom.particles]
    rtol_root, xtol_root = eom.errTol / 10, 1e-10
    viol, classes, keys, rows = [], [], [], []
    dT_fd = float(pot.derivativeSettings.temperatureVariationScale) * pot.effectivePotentialError ** 0.2
    recPoint = PointRecorder(eom.findPlasmaProfilePoint, eom)
    eom.findPlasmaProfilePoint = recPoint
    grad_code = lambda x, T: np.asarray(pot.grad_phys(pot.to_phys(x), T)) @ pot.A.T  # noqa: E731
    try:
        cs_low = math.sqrt(float(thermo.csqLowT(Tn)))
    except Exception:
        cs_low = 1 / math.sqrt(3)
    quota = ["detonation", "deflagration", "hybrid", "detonation", "deflagration", "detonation",
             "hybrid", "detonation"]
    rng.shuffle(quota)
    tried = 0
    done_v = 0
    qi = 0
    streak = 0          # consecutive inadmissible draws for the branch currently wanted
    while done_v < case["nv"] and tried < 6 * case["nv"]:
        tried += 1
        if streak >= 2:  # this model does not offer the branch inside P_window: move on
            qi += 1
            streak = 0
        want = quota[qi % len(quota)]
        streak += 1
        vw = draw_velocity(rng, want, hyd, cs_low)
        if vw is None:
            classes.append(f"no-window:{want}")
            qi += 1
            continue
        try:
            c1, c2, Tp, Tm, vmid = hyd.findHydroBoundaries(vw)
            mon["findHydroBoundaries"] += 1
            vp, vm, Tp2, Tm2 = hyd.findMatching(vw)
        except Exception as exc:
            classes.append("hydro-raised")
            rows.append({"vw": vw, "hydro_raised": repr(exc)[:120]})
            continue
        if vp is None or c1 is None or not all(np.isfinite([c1, c2, Tp, Tm, vmid, vp, vm])):
            classes.append("no-matching")
            continue
        c1, c2, Tp, Tm, vmid, vp, vm = map(float, (c1, c2, Tp, Tm, vmid, vp, vm))
        if (Tp2, Tm2) != (Tp, Tm):
            classes.append("matching-not-repeatable")
            continue
        # contract on findHydroBoundaries itself (conventions of the hand-over): velocityMid
        # is the wall-frame mean of the two asymptotic fluid velocities (negative), c1/c2
        # the energy/momentum flux of the matching in front of the wall, c1 negative.
        vmid_ref = -0.5 * (vp + vm)
        eps_c = 0.0
        mon["hydro_boundaries_contract"] = mon.get("hydro_boundaries_contract", 0) + 1
        if abs(vmid - vmid_ref) > 8 * EPS:
            viol.append({"mech": "hydro-boundaries-velocityMid-convention",
                         "msg": f"findHydroBoundaries({vw:.5f}) returned velocityMid={vmid!r}, "
                         f"-(v+ + v-)/2 = {vmid_ref!r}", "data": {"spec": case["spec"]}})
        eosp = R.phase_eos(pot, "high", Tp)
        if eosp is not None:
            g2p = 1 / (1 - vp * vp)
            c1_ref, c2_ref = -eosp[1] * g2p * vp, eosp[0] + eosp[1] * g2p * vp * vp
            # tables vs closed form: observed <= 2e-4; a sign or a power of v is O(1)
            eps_c = abs(c1 - c1_ref) / abs(c1_ref) + \
                abs(c2 - c2_ref) / (abs(eosp[0]) + eosp[1] * g2p)
            if abs(c1 - c1_ref) > 5e-3 * abs(c1_ref) or \
                    abs(c2 - c2_ref) > 5e-3 * (abs(eosp[0]) + eosp[1] * g2p):
                viol.append({"mech": "hydro-boundaries-c1-c2-not-fluxes-of-matching",
                             "msg": f"findHydroBoundaries({vw:.5f}): c1={c1!r}, c2={c2!r} but "
                             f"-w g^2 v+ = {c1_ref!r}, p + w g^2 v+^2 = {c2_ref!r} on the "
                             f"closed-form high-T phase at T+", "data": {"spec": case["spec"]}})
        branch = ("detonation" if vw > hyd.vJ else
                  "deflagration" if abs(vm - vw) <= 1e-9 else "hybrid")
        # ---- admissibility
        okw = (thermo.freeEnergyHigh.interpolationRangeMin() <= Tp
               <= thermo.freeEnergyHigh.interpolationRangeMax()
               and thermo.freeEnergyLow.interpolationRangeMin() <= Tm
               <= thermo.freeEnergyLow.interpolationRangeMax())
        if not okw:
            classes.append(f"inadmissible:P_window:{branch}")
            continue
        phm, php = pot.phases(Tm)["low"], pot.phases(Tp)["high"]
        if phm is None or php is None:
            classes.append("inadmissible:phase-does-not-exist")
            continue
        mres = R.matching_residuals(pot, vp, vm, Tp, Tm)
        mr = abs(mres[0]) + abs(mres[1])
        try:
            conds = (1 / max(abs(1 - vm * vm / float(thermo.csqLowT(Tm))), 0.02),
                     1 / max(abs(1 - vp * vp / float(thermo.csqHighT(Tp))), 0.02))
        except Exception:
            conds = (50.0, 50.0)
        mres = (mres[0], mres[1], eps_c, max(1.0, conds[0]), max(1.0, conds[1]))
        if not mr <= 2e-3:
            classes.append(f"inadmissible:P_matching:{branch}")
            rows.append({"vw": vw, "branch": branch, "matching_residuals": mres})
            continue
        vevLow = thermo.freeEnergyLow(Tm).fieldsAtMinimum
        vevHigh = thermo.freeEnergyHigh(Tp).fieldsAtMinimum
        lowX, highX = pot.to_code(phm), pot.to_code(php)
        qi += 1
        streak = 0
        done_v += 1
        for ishape in range(2):
            widths, offsets = draw_shape(rng, nf, Tn)
            from wgverif.oracles import c09_ref
            S, _ = c09_ref.integrand_scale(grad_code, lowX, highX, widths, offsets, Tm, n=801)
            exc_lo = float(np.ravel(pot.V_code(np.asarray(vevLow), Tm))[0]
                           - np.ravel(pot.V_phase("low", Tm))[0])
            exc_hi = float(np.ravel(pot.V_code(np.asarray(vevHigh), Tp))[0]
                           - np.ravel(pot.V_phase("high", Tp))[0])
            if max(abs(exc_lo), abs(exc_hi)) > 1e-3 * S:
                classes.append("inadmissible:P_trace")
                continue
            wp = WallParams(widths=widths.copy(), offsets=offsets.copy())
            eom._updateGrid(wp, vmid)
            fields, dPhidz = eom.wallProfile(grid.xiValues, vevLow, vevHigh, wp)
            chi = np.asarray(grid.chiValues, float)
            with_mom = bool(rng.random() < 0.5)
            if with_mom:
                # |T_out| <= 1e-3 of the equilibrium stress: T30_out <= dofs g^2 (2A + 2A)
                g2 = 1.0 / (1 - vmid * vmid)
                wscale = min(abs(c1), abs(c2))
                A = float(10 ** rng.uniform(-6, -3)) * wscale / (4 * sum(dofs) * g2)
                arr = R.smooth_moments(rng, chi, npart, A)
                arr[0] /= Tn ** 2          # Delta00 carries two powers of T less
                mon["profiles_with_moments"] += 1
            else:
                arr = np.zeros((4, npart, M - 1))
            deltas = make_deltas(eom, arr)
            recPoint.rows, recPoint.raised = [], None
            ctx = (f"{fam} s={case['spec']['s']:.3g} M={M} errTol={case['errTol']:g} "
                   f"v_w={vw:.5f} ({branch}; v+={vp:.4f} v-={vm:.4f} T+/Tn={Tp / Tn:.5f} "
                   f"T-/Tn={Tm / Tn:.5f}) L*Tn={np.round(widths * Tn, 3).tolist()} "
                   f"offsets={np.round(offsets, 3).tolist()} moments={'yes' if with_mom else 'zero'}")
            try:
                Tprof, vprof = eom.findPlasmaProfile(c1, c2, vmid, fields, dPhidz, deltas,
                                                     Tp, Tm)
            except Exception as exc:
                viol.append({"mech": "findPlasmaProfile-raises",
                             "msg": f"findPlasmaProfile raised {exc!r} (point "
                             f"{recPoint.raised}) on {ctx}", "data": {"spec": case["spec"]}})
                classes.append("raised")
                continue
            mon["findPlasmaProfile"] += 1
            mon["findPlasmaProfilePoint"] += len(recPoint.rows)
            success = bool(eom.successTemperatureProfile)
            row = _judge_profile(case, pot, eom, ctx, branch, c1, c2, Tp, Tm, vp, vm, vmid_ref,
                                 np.asarray(fields), np.asarray(dPhidz), arr, dofs, Tprof,
                                 vprof, recPoint.rows, success, widths, offsets, mres,
                                 rtol_root, xtol_root, dT_fd, viol, mon, classes)
            row.update(vw=vw, branch=branch, LTn=(widths * Tn).tolist(),
                       offsets=offsets.tolist(), moments=with_mom, matching_residuals=mres,
                       Tp_over_Tn=Tp / Tn, Tm_over_Tn=Tm / Tn)
            rows.append(row)
            if row["n_judged"]:
                classes += [branch, fam, f"M={M}", f"errTol={case['errTol']:g}", f"nf={nf}",
                            "moments" if with_mom else "no-moments"]
                keys.append(f"{key0}:{vw:.6f}:{ishape}:{widths[0] * Tn:.5g}")
    obs = {"spec": case["spec"], "M": M, "errTol": case["errTol"], "Tn": Tn, "vJ": hyd.vJ,
           "cs_low": cs_low, "rows": rows[:4], "n_profiles": len([r for r in rows if "n_judged" in r]),
           "stats": [[r["branch"], r["maxR1_over_tol"], r["maxR2_over_tol"], r["maxR1"],
                      r["maxR2"], r.get("far_over_tol"), r.get("far_max"), r["n_min_returned"],
                      r["n_no_solution"], r.get("max_min_returned_R2")] for r in rows if "n_judged" in r]}
    return {"key": key0, "cls": classes or ["no-profiles"], "nontrivial": bool(keys),
            "obs": obs, "viol": viol, "mon": mon, "keys": keys}


def _judge_profile(case, pot, eom, ctx, branch, c1, c2, Tp, Tm, vp, vm, vmid, fields, dPhidz,
                   arr, dofs, Tprof, vprof, prow, success, widths, offsets, mres, rtol_root,
                   xtol_root, dT_fd, viol, mon, classes):
    M1 = fields.shape[0]
    mr = abs(mres[0]) + abs(mres[1])
    worst1 = worst2 = 0.0
    max1 = max2 = 0.0
    n_j = n_min = n_nosol = n_unphys = 0
    bad1, bad2, minres = [], [], []
    byidx = {i: (T, v, br, ok) for i, T, v, br, ok in prow}
    n_flagged = 0
    n_unobs = 0
    prof_mismatch = False
    for k in range(M1):
        if k not in byidx:
            continue
        T, v, solver_branch, point_ok = byidx[k]
        if solver_branch == "unobserved":
            n_unobs += 1
        if not T > 0:
            n_nosol += 1
            continue
        if not point_ok:
            n_flagged += 1        # the point routine itself reported failure: not judged
            continue
        if Tprof[k] != T or vprof[k] != v:
            prof_mismatch = True
        pspec = case["spec"]["particles"][0]
        msq = [pspec["coupling"] * float(pot.to_phys(np.atleast_2d(fields[k]))[0, pspec["field"]]) ** 2]
        t30o, t33o = R.tout_direct(arr[0][:, k], arr[1][:, k], arr[2][:, k], arr[3][:, k],
                                   msq, dofs, vmid)
        ps = R.PointStress(pot, fields[k], dPhidz[k], t30o, t33o)
        w = ps.w(T)
        if not (np.isfinite(v) and np.isfinite(T)):
            viol.append({"mech": "profile-point-not-finite",
                         "msg": f"point {k}: T={T!r}, v={v!r} on {ctx}", "data": {}})
            continue
        if not (abs(v) < 1 and w > 0):
            # algebraic root with negative enthalpy / |v| >= 1 (seen where a two-field tanh
            # path crosses a high barrier on the detonation branch).  The property speaks
            # only about the two conserved components, which are judged as algebra below;
            # the occurrence is counted.
            n_unphys += 1
            if abs(v) == 1:
                continue
        r1 = (ps.t30(T, v) - c1) / abs(c1)
        w_abs = abs(w)
        r2 = (ps.t33(T, v) - c2) / (abs(c2) + w_abs)
        # ---- tolerances for this point
        vabs = abs(ps.V(T)) + pot.a * T ** 4
        dw = T * 1.5 * 4 * EPS * vabs / dT_fd          # rounding of the FD dV/dT (x T)
        g2 = 1 / ((1 - v) * (1 + v))
        tau1 = 32 * dw / w_abs + 64 * EPS     # observed <= 0.45 with factor 8
        dlt = 2 * (xtol_root + rtol_root * T)
        f0 = ps.t33_on_t30_shell(T, c1)
        spread = max(abs(ps.t33_on_t30_shell(T + dlt, c1) - f0),
                     abs(ps.t33_on_t30_shell(max(T - dlt, 1e-300), c1) - f0))
        rounding2 = 32 * dw * (0.5 + abs(g2) * v * v) / (abs(c2) + w_abs) + 4 * mr + 64 * EPS
        if solver_branch == "minimum-returned":
            # no root exists; the returned minimiser counts as a solution when it misses c2
            # by less than the relative tolerance the root finder is configured for
            tau2 = rtol_root + rounding2
        else:
            tau2 = spread / (abs(c2) + w_abs) + rounding2
        n_j += 1
        max1, max2 = max(max1, abs(r1)), max(max2, abs(r2))
        worst1, worst2 = max(worst1, abs(r1) / tau1), max(worst2, abs(r2) / tau2)
        # classification of the branch the point solver took (from the oracle's function)
        is_min = solver_branch == "minimum-returned"
        if is_min:
            n_min += 1
            minres.append(abs(r2))
        if abs(r1) > tau1:
            bad1.append({"point": k, "T": T, "v": v, "R1": r1, "tau1": tau1})
        if abs(r2) > tau2:
            bad2.append({"point": k, "T": T, "v": v, "R2": r2, "tau2": tau2,
                         "minimum_returned": bool(is_min), "z": float(eom.grid.xiValues[k])})
    mon["points_judged"] += n_j
    mon["points_" + branch] += n_j
    mon["points_no_solution"] += n_nosol
    mon["points_unphysical"] = mon.get("points_unphysical", 0) + n_unphys
    if n_unphys:
        classes.append(f"unphysical-root(w<=0 or |v|>=1):{branch}")
    mon["points_minimum_returned"] += n_min
    mon["points_root"] += n_j - n_min
    if prof_mismatch:
        viol.append({"mech": "profile-arrays-differ-from-point-results",
                     "msg": f"findPlasmaProfile returned values that differ from what "
                     f"findPlasmaProfilePoint returned at points with T>0 on {ctx}", "data": {}})
    mon["points_flagged_by_point_routine"] = mon.get("points_flagged_by_point_routine", 0) + n_flagged
    if n_flagged:
        classes.append(f"point-routine-reported-failure:{branch}")
    if (n_nosol or n_flagged) and success:
        viol.append({"mech": "success-flag-true-despite-point-without-solution",
                     "msg": f"{n_nosol} point(s) returned T<=0 / {n_flagged} lowered the flag but successTemperatureProfile "
                     f"is True on {ctx}", "data": {}})
    if n_nosol:
        classes.append(f"some-points-no-solution:{branch}")
    if bad1:
        viol.append({"mech": "t30-not-conserved",
                     "msg": f"{len(bad1)} point(s) with |T30-c1|/|c1| up to "
                     f"{max(abs(b['R1']) for b in bad1):.3e} (tol {bad1[0]['tau1']:.1e}) on {ctx}",
                     "data": {"spec": case["spec"], "points": bad1[:4]}})
    for kind in ("minimum-returned", "root"):
        sel = [b_ for b_ in bad2 if b_["minimum_returned"] == (kind == "minimum-returned")]
        if not sel:
            continue
        mech = ("t33-not-conserved:minimum-returned-as-success" if kind == "minimum-returned"
                else "t33-not-conserved:root-branch")
        viol.append({"mech": mech,
                     "msg": f"{len(sel)} point(s) "
                     + ("returned from the no-root branch (minimiser of the T33 equation, "
                        "T>0, success flag untouched) " if kind == "minimum-returned" else "")
                     + f"with |T33-c2|/(|c2|+w) up to {max(abs(b_['R2']) for b_ in sel):.3e} "
                     f"(tol {sel[0]['tau2']:.1e}, success flag {success}) on {ctx}",
                     "data": {"spec": case["spec"], "points": sel[:4]}})
    if n_unobs:
        viol.append({"mech": "point-solver-did-not-minimise",
                     "msg": f"{n_unobs} point(s) were returned without a minimize_scalar call "
                     f"being observed on {ctx}", "data": {}})
    row = {"n_judged": n_j, "n_min_returned": n_min, "n_no_solution": n_nosol,
           "n_unphysical": n_unphys, "max_min_returned_R2": max(minres) if minres else None,
           "success": success, "maxR1": max1, "maxR2": max2, "maxR1_over_tol": worst1,
           "maxR2_over_tol": worst2}
    # ------------------------------------------------------------------ far field
    # The two end points are independent point solves; the matching values solve the two
    # equations there up to the field tail and the matching tolerance, so a solution exists
    # (behind a hybrid: the double root) whatever happened in the middle of the wall.
    z = np.asarray(eom.grid.xiValues, float)
    tails = {"front": float(np.max(1 / np.cosh(np.clip(z[-1] / widths + offsets, -300, 300)) ** 2)),
             "behind": float(np.max(1 / np.cosh(np.clip(z[0] / widths + offsets, -300, 300)) ** 2))}
    devs, ratios = {}, {}
    for side, k, Tref, vref in (("front", M1 - 1, Tp, vp), ("behind", 0, Tm, vm)):
        if k not in byidx:
            continue
        Tk, vk, _, ok = byidx[k]
        name = "Tplus-vplus" if side == "front" else "Tminus-vminus"
        if not Tk > 0:
            mon["far_field_judged"] += 1
            viol.append({"mech": f"far-field-{side}-no-solution:{branch}",
                         "msg": f"the point solver found no solution at the {side} end of the "
                         f"grid (z*Tn={z[k] * case['spec']['Tn_over_s'] * case['spec']['s']:.1f}, "
                         f"field tail {tails[side]:.1e}) although ({Tref!r}, {-vref!r}) solves "
                         f"both equations there, on {ctx}", "data": {"spec": case["spec"]}})
            continue
        if not ok:
            continue
        # how well do the matching values solve the two equations *at this grid point*
        # (closed-form potential, actual fields and moments there)?  This one residual
        # contains the field tail, an end point that is slightly off the minimum, the
        # accuracy of the tables behind c1/c2 and of the matching; the solution is away
        # from (T_ref, -v_ref) by about that times the conditioning 1/|1 - v^2/c_s^2|.
        t30o, t33o = R.tout_direct(arr[0][:, k], arr[1][:, k], arr[2][:, k], arr[3][:, k],
                                   [0.0] * len(dofs), dofs, vmid)
        pe = R.PointStress(pot, fields[k], dPhidz[k], t30o, t33o)
        r_ref = abs(pe.t30(Tref, -vref) - c1) / abs(c1) + \
            abs(pe.t33(Tref, -vref) - c2) / (abs(c2) + abs(pe.w(Tref)))
        cond = mres[3] if side == "behind" else mres[4]
        pert = K_REF * r_ref + K_FAR * (rtol_root + xtol_root / Tref)
        tol = pert * cond + 1e-6
        if branch == "hybrid" and side == "behind":
            # behind a hybrid the flow is sonic: (T-, v-) is the double root of the T33
            # equation, every perturbation p of the equation (field tail, matching
            # residual, root tolerance) moves the root by ~sqrt(p); where no root is left
            # the code returns the minimiser, located by minimize_scalar with its default
            # *absolute* xatol = 1e-5
            tol += 3 * math.sqrt(pert) + 4e-5 / Tm
        dev = max(abs(Tk - Tref) / Tref, abs(vk + vref))
        mon["far_field_judged"] += 1
        devs[side], ratios[side] = dev, dev / tol
        if dev > tol:
            viol.append({"mech": f"far-field-{side}-not-{name}:{branch}",
                         "msg": f"{side} end: T={Tk!r} v={vk!r} but matching gives T={Tref!r}, "
                         f"v={-vref!r}: deviation {dev:.3e} > {tol:.2e} on {ctx}",
                         "data": {"spec": case["spec"]}})
    if devs:
        row.update(far_front=devs.get("front"), far_back=devs.get("behind"),
                   far_max=max(devs.values()), far_over_tol=max(ratios.values()),
                   tail=[tails["behind"], tails["front"]])
    return row


def summarize(results, tier):
    by = {}
    for r in results:
        if r.get("inconclusive"):
            continue
        for st in (r.get("obs") or {}).get("stats") or []:
            br = st[0]
            d = by.setdefault(br, {"R1_over_tol": [], "R2_over_tol": [], "R1": [], "R2": [],
                                   "far_over_tol": [], "far": [], "min_returned": 0,
                                   "no_solution": 0})
            for name, v in (("R1_over_tol", st[1]), ("R2_over_tol", st[2]), ("R1", st[3]),
                            ("R2", st[4]), ("far_over_tol", st[5]), ("far", st[6])):
                if isinstance(v, (int, float)):
                    d[name].append(float(v))
            d["min_returned"] += int(st[7] or 0)
            d["no_solution"] += int(st[8] or 0)
            if len(st) > 9 and isinstance(st[9], (int, float)):
                d.setdefault("min_returned_R2", []).append(float(st[9]))

    def stats(a):
        a = np.asarray(a, float)
        if not a.size:
            return None
        return {"n": int(a.size), "median": float(np.median(a)),
                "p99": float(np.percentile(a, 99)), "max": float(a.max())}
    out = {}
    for br, d in by.items():
        out[br] = {k: (stats(v) if isinstance(v, list) else v) for k, v in d.items()}
    tot = {}
    for r in results:
        for k, v in (r.get("mon") or {}).items():
            tot[k] = tot.get(k, 0) + v
    pj = max(tot.get("points_judged", 0), 1)
    return {"residuals_by_branch": out,
            "fraction_points_detonation": tot.get("points_detonation", 0) / pj,
            "fraction_points_hybrid": tot.get("points_hybrid", 0) / pj,
            "fraction_points_deflagration": tot.get("points_deflagration", 0) / pj,
            "point_solver_branches": {"root": tot.get("points_root", 0),
                                      "minimum-returned": tot.get("points_minimum_returned", 0),
                                      "no-solution": tot.get("points_no_solution", 0)}}
