"""C15 — on template-form equations of state the general Hydrodynamics solver and the
closed-form HydrodynamicsTemplateModel agree (differential monitor between the two real
solvers; every tolerance is propagated from *both* sides' solver tolerances through
sensitivities measured on the real code / the reference integrator).
"""
from __future__ import annotations

import math

import numpy as np

from wgverif import env  # noqa: F401
from wgverif.checks import _hydro as HY
from wgverif.checks import C05 as LTE
from wgverif.models import eos as E
from wgverif.oracles import fluid as F

PROPERTY = "C15"
RULE = ("template-form equations of state only (constant-sound-speed template incl. the bag "
        "limit): alpha_n - (1-psi)/3 log-uniform in [1e-3,1], psi in [0.5,1], c_b^2, c_s^2 in "
        "[0.2,1/3] in either order, unit factor over five decades; velocities as in C02.  "
        "Compared: vJ, vMin, findMatching, findHydroBoundaries, findvwLTE, efficiencyFactor. "
        "Non-trivial: a comparison in which the general solver did not itself fall back to "
        "the template model; distinct by (EOS, setting, quantity, v_w).")
ASSUMPTIONS = [
    "comparisons where the general solver's result came from its template fallback are "
    "trivially equal and excluded from distinct_nontrivial (counted as class 'trivial')",
    "matchings of either solver that fail the flux oracle (C02's known finding) are excluded",
]
CASE_TIMEOUT = 240
CHUNK = 1
SETTINGS = [(1e-6, 1e-6), (1e-6, 1e-10), (1e-8, 1e-10)]
MARGIN = 1e-3
FLOORS = {
    "quick": {"distinct_nontrivial": 500,
              "mon": {"matching_pairs": 500, "boundary_pairs": 400, "lte_pairs": 80,
                      "kappa_pairs": 80, "vJ_pairs": 100},
              "cls": {"deflagration": 100, "hybrid": 60, "detonation": 100}},
    "thorough": {"distinct_nontrivial": 12000,
                 "mon": {"matching_pairs": 12000, "boundary_pairs": 10000, "lte_pairs": 1800,
                         "kappa_pairs": 1500, "vJ_pairs": 2000}},
}


def worker_init():
    env.import_wallgo()


def generate(tier, seed):
    rng = np.random.default_rng(15000 + seed)
    n_eos, n_v = (140, 8) if tier == "quick" else (3000, 10)
    cases = []
    for i in range(n_eos):
        spec = E.random_spec(rng, family="template" if rng.random() < 0.85 else "bag")
        if i % 4 == 1:
            # the phases are known on limited temperature ranges (as after a real trace):
            # nothing the two solvers are compared on may depend on where the tables end, as
            # long as the temperatures met stay inside them.  Strong transitions (a minimal
            # velocity exists) get a share, so that vMin is compared under such ranges
            if spec["family"] == "template" and rng.random() < 0.5:
                spec["alN"] = (1 - spec["psiN"]) / 3 + float(rng.uniform(0.3, 0.9))
            Tn_ = spec["Tn"]
            spec["rangeL"] = [float(rng.uniform(0.3, 0.8)) * Tn_, 1e4 * Tn_]
            spec["rangeH"] = [float(rng.uniform(0.3, 0.8)) * Tn_, 1e4 * Tn_]
        cases.append({"i": i, "spec": spec, "setting": int(rng.integers(len(SETTINGS))),
                      "nv": n_v, "s": int(rng.integers(1 << 30))})
    return cases


def valid_matching(probe, m):
    vals = [m["vp"], m["vm"], m["Tp"], m["Tm"]]
    if not all(np.isfinite(vals)) or not (0 < m["vp"] < 1 and 0 < m["vm"] < 1
                                          and m["Tp"] > 0 and m["Tm"] > 0):
        return False
    r1, r2 = probe.flux_residuals(*vals)
    return abs(r1) < 1e-3 and abs(r2) < 1e-3


def sensitivities(probe, vw, m):
    """d(T+, T-, T_n')/dv+ at fixed v_w through the real, flux-validated 2x2 matching and
    the reference integrator."""
    hyd = probe.hyd
    vp = m["vp"]
    h = 1e-4 * vp
    rows = []
    for sgn in (-1, 1):
        o = [float(x) for x in hyd.matchDeflagOrHyb(vw, vp + sgn * h)]
        if not hyd.success or not all(np.isfinite(o)):
            return None
        r = probe.flux_residuals(*o)
        if abs(r[0]) > 1e-6 or abs(r[1]) > 1e-6:
            return None
        tn, _, _ = probe.ref_Tn(vw, o[0], o[2])
        rows.append((o[2], o[3], tn, o[1]))
    d = [(rows[1][k] - rows[0][k]) / (2 * h) for k in range(4)]
    return {"dTp": abs(d[0]), "dTm": abs(d[1]), "dTn": abs(d[2]), "dvm": abs(d[3])}


def run_case(case):
    rng = np.random.default_rng(case["s"])
    spec = case["spec"]
    rtol, atol = SETTINGS[case["setting"]]
    mon = {"matching_pairs": 0, "boundary_pairs": 0, "lte_pairs": 0, "kappa_pairs": 0,
           "vJ_pairs": 0, "vMin_pairs": 0, "scan_matchings": 0}
    eos = E.build(spec)
    ok, why = E.admissible(eos)
    key0 = f"{spec['family']}:{case['i']}:{case['setting']}"
    if not ok:
        return {"key": key0, "cls": "inadmissible-eos", "nontrivial": False,
                "obs": {"why": why}, "viol": [], "mon": mon}
    try:
        probe = HY.HydroProbe(spec, rtol, atol)
    except Exception as exc:
        return {"key": key0, "cls": "construction-error", "nontrivial": False,
                "obs": {"error": repr(exc)[:200]}, "viol": [], "mon": mon}
    hyd, tmpl = probe.hyd, probe.tmpl
    Tn = probe.Tn
    viol, classes, keys, rows = [], [], [], []
    noiseT = 30 * rtol * Tn + 4 * atol        # shock-integration noise (C03 calibration)

    def fail(mech, msg, data=None):
        viol.append({"mech": mech, "msg": msg + f" [{spec}, rtol={rtol}, atol={atol}]",
                     "data": data or {}})

    # ------------------------------------------------------------------ vJ, vMin
    mon["vJ_pairs"] += 1
    tol = 1e-9 * tmpl.vJ + 10 * (rtol + atol / Tn) ** 2
    tol_vJ = tol
    dj = abs(hyd.vJ - tmpl.vJ)
    if dj > tol:
        fail("vJ-disagrees", f"vJ general {hyd.vJ!r} vs template {tmpl.vJ!r} (diff {dj:.2e}, "
             f"tol {tol:.1e})")
    keys.append(f"{key0}:vJ")
    vmin_g = hyd.minVelocity()
    if vmin_g > 1e-3 or tmpl.vMin > 1e-3:
        mon["vMin_pairs"] += 1
        # general: root of strongestShock(v)-T_n with the plasma behind the wall at
        # TMinHydro=0.01 T_n instead of 0; template: alpha+=1/3.  Sensitivity measured.
        try:
            h = 1e-3
            g1 = hyd.strongestShock(vmin_g + h)
            g0 = hyd.strongestShock(max(vmin_g - h, 2e-3))
            slope = abs(g1 - g0) / (vmin_g + h - max(vmin_g - h, 2e-3))
            tolv = 4 * (atol + rtol * vmin_g) + 2 * noiseT / max(slope, 1e-300) + \
                1e-6 * vmin_g
            dv = abs(vmin_g - tmpl.vMin)
            rows.append({"vMin_diff": dv, "tol": tolv})
            if dv > tolv:
                fail("vMin-disagrees", f"vMin general {vmin_g!r} vs template {tmpl.vMin!r} "
                     f"(diff {dv:.2e}, tol {tolv:.1e})")
            keys.append(f"{key0}:vMin")
            classes.append("vMin-compared")
        except Exception as exc:
            classes.append("vMin-probe-failed")

    # ------------------------------------------------------------------ matchings
    cb = math.sqrt(eos.ref("L", Tn)["csq"])
    vws, kinds = HY.velocities(rng, hyd, case["nv"], cb, probe)
    for vw in vws:
        if vw < max(tmpl.vMin, hyd.vMin):
            continue
        m = probe.matching(vw)
        try:
            t = tmpl.findMatching(vw)
        except Exception as exc:
            t = None
        if m.get("none") or m["error"] or t is None or t[0] is None:
            g_none = bool(m.get("none") or m["error"])
            t_none = t is None or t[0] is None
            # (matchDeton locates the fold with scipy's bounded minimiser at its default
            # absolute xatol = 1e-5 in temperature: in small units that alone leaves vJ
            # undetermined to ~10 (1e-5/T_n)^2)
            tol_side = max(2 * tol_vJ, 10 * ((1e-5 + atol) / Tn + rtol) ** 2)
            if g_none != t_none and min(abs(vw - hyd.vJ), abs(vw - tmpl.vJ)) <= tol_side:
                # inside the accuracy to which the two Jouguet velocities themselves are
                # determined by the tolerances (atol is absolute: in small units it is a
                # coarse relative accuracy on T): which side of vJ this velocity is on, and
                # hence whether a detonation exists, is not decided
                classes.append("one-side-no-solution:within-vJ-tolerance(not judged)")
            elif g_none != t_none and m["branch"] != "template-fallback":
                classes.append("one-side-no-solution")
                other = m if t_none else None
                if not t_none:
                    other = {"vw": vw, "vp": float(t[0]), "vm": float(t[1]),
                             "Tp": float(t[2]), "Tm": float(t[3])}
                # is the side that answered right?  (flux oracle + reference flow)
                good = False
                try:
                    if valid_matching(probe, other):
                        if vw > hyd.vJ:
                            good = True
                        else:
                            tn, _, _ = probe.ref_Tn(vw, other["vp"], other["Tp"])
                            good = abs(tn - Tn) < 1e-4 * Tn
                except (F.RefCapExceeded, F.RefFailed):
                    good = False
                if good:
                    who = "template" if t_none else "general"
                    fail(f"{who}-findMatching-no-solution-although-matching-exists",
                         f"vw={vw:.6g}: {who} solver returned "
                         f"{'None' if t_none else (m['error'] or 'None')} but the other "
                         f"solver's matching v+={other['vp']:.6g}, T+={other['Tp']:.6g} "
                         f"conserves the fluxes and its flow reaches T_n")
                rows.append({"vw": vw, "one_side": "general-none" if g_none else "template-none",
                             "general": {k: m.get(k) for k in ("branch", "error", "vp", "Tp")},
                             "template": None if t is None else [float(x) if x is not None
                                                                 else None for x in t]})
            continue
        mt = {"vw": vw, "vp": float(t[0]), "vm": float(t[1]), "Tp": float(t[2]),
              "Tm": float(t[3])}
        if not valid_matching(probe, m) or not valid_matching(probe, mt):
            classes.append("not-a-matching(C02)")
            continue
        cls = probe.classify(m)
        trivial = m["branch"] == "template-fallback"
        mon["matching_pairs"] += 1
        row = {"vw": vw, "cls": cls, "trivial": trivial}
        rows.append(row)
        if cls == "detonation":
            dTm = 2 * (atol + rtol * m["Tm"]) + 1e-12 * m["Tm"]
            # v- sensitivity to T- through the junction relations
            hh = 1e-7 * m["Tm"]
            vms = []
            for sgn in (-1, 1):
                a, b = probe.junction_vm(vw, Tn, m["Tm"] + sgn * hh)
                vms.append(math.sqrt(a / b) if a / b > 0 else float("nan"))
            dvm = abs(vms[1] - vms[0]) / (2 * hh) * dTm + 1e-12
            tols = {"vp": 0.0, "Tp": 0.0, "Tm": dTm, "vm": dvm}
        else:
            try:
                sens = sensitivities(probe, vw, m)
            except (F.RefCapExceeded, F.RefFailed):
                sens = None
            if sens is None or sens["dTn"] == 0:
                classes.append("sensitivity-probe-failed")
                continue
            dvp = 2 * (atol + rtol * m["vp"]) * 2 + 2 * noiseT / sens["dTn"] + 1e-12
            tols = {"vp": dvp, "Tp": sens["dTp"] * dvp + 1e-11 * m["Tp"],
                    "Tm": sens["dTm"] * dvp + 1e-11 * m["Tm"],
                    "vm": sens["dvm"] * dvp + 1e-12}
        worst = 0.0
        attributed = None
        for q in ("vp", "vm", "Tp", "Tm"):
            d = abs(m[q] - mt[q])
            worst = max(worst, d / tols[q] if tols[q] > 0 else (0.0 if d == 0 else np.inf))
            if d > tols[q]:
                mech = f"matching-disagrees-{cls}"
                extra = ""
                if cls != "detonation" and (m.get("n_hybr_failed") or 0) > 0:
                    # arbitration by the reference flow: which of the two reaches T_n?
                    try:
                        tg = probe.ref_Tn(vw, m["vp"], m["Tp"])[0]
                        tt_ = probe.ref_Tn(vw, mt["vp"], mt["Tp"])[0]
                        # C15 judges v+ at 2 noise / sensitivity: a general matching whose
                        # own flow misses T_n by more than the noise while the template's is
                        # an order of magnitude closer explains a disagreement of that size
                        tolT = noiseT
                        if abs(tg - Tn) > tolT and abs(tt_ - Tn) <= 0.3 * tolT:
                            # C03's known mechanism seen differentially: brentq over v+
                            # converged to a jump made by non-converged 2x2 solves
                            mech = "vp-root-search-over-nonconverged-matchings"
                            extra = (f"; reference flow from the general matching ends at "
                                     f"{tg / Tn:.6f} T_n, from the template's at "
                                     f"{tt_ / Tn:.9f} T_n; {m['n_hybr_failed']} hybr "
                                     f"failures during this findMatching call")
                            attributed = mech
                    except (F.RefCapExceeded, F.RefFailed):
                        pass
                fail(mech,
                     f"{cls} vw={vw:.6g}: {q} general {m[q]!r} vs template {mt[q]!r} "
                     f"(diff {d:.2e}, tol {tols[q]:.1e}; branch {m['branch']}){extra}", row)
                break
        row["worst_over_tol"] = worst
        classes.append("trivial" if trivial else cls)
        if not trivial:
            keys.append(f"{key0}:match:{vw:.9f}")
        # -------- boundary constants
        try:
            hg = hyd.findHydroBoundaries(vw)
            ht = tmpl.findHydroBoundaries(vw)
        except Exception:
            continue
        if hg[0] is None or ht[0] is None or ht[4] is None or (hg[0] == 0 and hg[2] == 0):
            continue
        mon["boundary_pairs"] += 1
        # propagate the matching tolerances through the fluxes (numerically)
        f0 = probe.fluxes(m)
        f1 = probe.fluxes({**m, "vp": min(m["vp"] + tols["vp"], 1 - 1e-12),
                           "Tp": m["Tp"] + tols["Tp"]})
        f2 = probe.fluxes({**m, "vp": max(m["vp"] - tols["vp"], 1e-12),
                           "Tp": m["Tp"] - tols["Tp"]})
        t1 = max(abs(f1["F1p"] - f0["F1p"]), abs(f2["F1p"] - f0["F1p"])) + 1e-11 * f0["F1p"]
        t2 = max(abs(f1["F2p"] - f0["F2p"]), abs(f2["F2p"] - f0["F2p"])) + \
            1e-11 * abs(f0["F2p"])
        tm_ = 0.5 * (tols["vp"] + tols["vm"]) + 1e-15
        for name, a, b, tt in (("c1", hg[0], ht[0], t1), ("c2", hg[1], ht[1], t2),
                               ("velocityMid", hg[4], ht[4], tm_)):
            if abs(a - b) > tt:
                fail(attributed or "boundary-constants-disagree",
                     f"{cls} vw={vw:.6g}: {name} general {a!r} vs template {b!r} "
                     f"(diff {abs(a - b):.2e}, tol {tt:.1e})", row)
                break
        if not trivial:
            keys.append(f"{key0}:hb:{vw:.9f}")
        # -------- efficiency factor
        if rtol <= 1e-8:
            try:
                kg, kt = float(hyd.efficiencyFactor(vw)), float(tmpl.efficiencyFactor(vw))
            except Exception as exc:
                continue
            mon["kappa_pairs"] += 1
            # both sides apply Simpson's rule to sparse ODE nodes (C03: 1e-2 / 5e-2 each)
            # each side <= 1.6e-2 (rarefaction) / 1.8e-3 (shock only) from the exact integral
            # (C03 calibration over 5 seeds); the two errors are of the same sign and size
            # in practice (observed difference <= 6e-3), so 4e-2 / 1e-2 keeps a margin > 5
            tk = (4e-2 if cls != "deflagration" else 1e-2) * max(abs(kt), 1e-12)
            row["kappa_rel"] = (kg - kt) / max(abs(kt), 1e-300)
            if not np.isfinite(kg) or not np.isfinite(kt) or abs(kg - kt) > tk:
                fail("efficiency-factor-disagrees",
                     f"{cls} vw={vw:.6g}: kappa general {kg!r} vs template {kt!r}", row)
            if not trivial:
                keys.append(f"{key0}:kappa:{vw:.9f}")

    # ------------------------------------------------------------------ LTE velocity
    try:
        vg, vt = float(hyd.findvwLTE()), float(tmpl.findvwLTE())
        mon["lte_pairs"] += 1
        row = {"lte_general": vg, "lte_template": vt}
        rows.append(row)
        if 0 < vg < 1 and 0 < vt < 1:
            h = max(1e-4, 10 * (atol + rtol * vg))
            gs = []
            for sgn in (-1, 1):
                vv = vg + sgn * h
                vp_, _, Tp_, _ = hyd.matchDeflagOrHyb(vv)
                gs.append(float(hyd.solveHydroShock(vv, float(vp_), float(Tp_))))
            gprime = abs(gs[1] - gs[0]) / (2 * h)
            # both solvers carry integration noise on T_n'; the template's nested root
            # solves are not better than the general solver's (observed 1.25x at factor 2)
            tol = 4 * (atol + rtol * vg) + 4 * noiseT / max(gprime, 1e-300) + 1e-9
            row["tol"] = tol
            if abs(vg - vt) > tol:
                # who is wrong?  decided by the C05 oracle, not by majority
                Sg = LTE.entropy_S(probe, vg, mon)
                St = LTE.entropy_S(probe, vt, mon)
                fail("lte-velocity-disagrees",
                     f"findvwLTE general {vg!r} vs template {vt!r} (diff {abs(vg - vt):.2e}, "
                     f"tol {tol:.1e}); entropy mismatch S/T_n at general {Sg}, at template {St}",
                     row)
            classes.append("lte-both-interior")
            keys.append(f"{key0}:lte")
        elif vg == vt:
            classes.append("lte-same-sentinel")
            keys.append(f"{key0}:lte")
        else:
            # sentinel vs interior: excluded when the interior value is within MARGIN of the
            # end the sentinel stands for, or |S| at the deciding end is below MARGIN
            lo = max(hyd.vMin, 1e-3)
            inter = vg if 0 < vg < 1 else vt
            sent = vt if 0 < vg < 1 else vg
            near = (sent == 0 and inter - lo < 10 * MARGIN) or \
                   (sent == 1 and hyd.vJ - inter < 10 * MARGIN)
            if near or not (0 < inter < 1):
                classes.append("lte-excluded-by-margin")
            else:
                Sg = LTE.entropy_S(probe, inter, mon)
                t = tmpl
                mech = "lte-sentinel-vs-interior"
                if vg == 0:
                    try:
                        o = [float(x) for x in hyd.matchDeflagOrHyb(hyd.vMin)]
                        r = probe.flux_residuals(*o)
                        if (not hyd.success) or abs(r[0]) > 1e-3 or not all(np.isfinite(o)):
                            mech = "lte-static-sentinel-from-nonconverged-matching-at-vmin"
                    except Exception:
                        pass
                if vt == 0 and t.alN <= (t.mu - t.nu) / (3 * t.mu) and \
                        t.alN >= (1 - t.psiN) / 3:
                    mech = "template-lte-alpha-shortcut-cb-gt-cs"
                fail(mech, f"findvwLTE general {vg!r} vs template {vt!r}; S/T_n at the "
                     f"interior value: {Sg}", row)
                classes.append("lte-sentinel-mismatch")
    except Exception as exc:
        classes.append("lte-raised")
        rows.append({"lte_error": repr(exc)[:150]})
    worst = max([r.get("worst_over_tol", 0) for r in rows] or [0])
    obs = {"spec": spec, "rtol": rtol, "atol": atol, "vJ": hyd.vJ, "rows": rows[:4],
           "worst_matching_diff_over_tol": worst,
           "worst_kappa_rel": max([abs(r.get("kappa_rel", 0)) for r in rows] or [0])}
    return {"key": key0, "cls": classes or ["no-rows"], "nontrivial": bool(keys), "obs": obs,
            "viol": viol, "mon": mon, "keys": keys}


def summarize(results, tier):
    w = [r["obs"].get("worst_matching_diff_over_tol", 0) for r in results
         if not r["inconclusive"] and np.isfinite(r["obs"].get("worst_matching_diff_over_tol", 0))]
    k = [r["obs"].get("worst_kappa_rel", 0) for r in results if not r["inconclusive"]]
    if not w:
        return {}
    return {"matching_diff_over_tol": {"median": float(np.median(w)),
                                       "p99": float(np.percentile(w, 99)), "max": float(max(w))},
            "kappa_rel_diff": {"median": float(np.median(k)), "max": float(max(k))}}
