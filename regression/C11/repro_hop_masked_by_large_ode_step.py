"""Stand-alone reproduction (needs only WallGo + numpy; run with /venv/bin/python).

FreeEnergy.tracePhase hops to the other phase at a fold although its "re-minimisation
jumped" guard is in place: the RK45 step that crosses the fold is itself huge (it moves the
point about half-way to the other minimum), the re-minimisation then moves it the rest of
the way, and   jump > max(stepMoved, 0.1*fieldScale)   is False because jump < stepMoved.
The trace continues on the *other* phase up to the requested TMax, flag False.

Model (all closed form): V = -a T^4 + l1/4 (u^2-v^2)^2 + kap (u^2-v^2) p^2
                             + D (T^2-T0^2) p^2 - E T p^3 + lam/4 p^4
low-T phase: u^2 = v^2 - 2 kap p^2/l1, p = p_+(T) of the one-field potential with
lamEff = lam - 4 kap^2/l1; it ends in a fold at T1 = T0 sqrt(8 lamEff D/(8 lamEff D - 9 E^2)).
"""
import logging
import sys
import warnings

import numpy as np

warnings.filterwarnings("ignore")
logging.disable(logging.CRITICAL)
import WallGo  # noqa: E402
from WallGo import Fields  # noqa: E402


class V2(WallGo.EffectivePotential):
    fieldCount = 2
    effectivePotentialError = 1e-15
    a, l1, kap = 1.096622711232151, 0.08230321177525594, 0.0266292618176708
    D, E, lam = 0.659061732456774, 0.10070879903253535, 0.26798542767494266
    v, T0 = 1302.9655638802517, 100.0
    lamEff = lam - 4 * kap ** 2 / l1

    def evaluate(self, fields, temperature):
        f = Fields.castFromNumpy(np.asarray(fields, dtype=float))
        u, p = f.getField(0), f.getField(1)
        T = np.asarray(temperature, dtype=float)
        w = u ** 2 - self.v ** 2
        return (-self.a * T ** 4 + 0.25 * self.l1 * w ** 2 + self.kap * w * p ** 2
                + self.D * (T ** 2 - self.T0 ** 2) * p ** 2 - self.E * T * p ** 3
                + 0.25 * self.lam * p ** 4)

    def T1(self):
        x = 8 * self.lamEff * self.D
        return self.T0 * np.sqrt(x / (x - 9 * self.E ** 2))

    def low(self, T):
        disc = 9 * self.E ** 2 * T ** 2 - 8 * self.lamEff * self.D * (T ** 2 - self.T0 ** 2)
        p = (3 * self.E * T + np.sqrt(max(disc, 0.0))) / (2 * self.lamEff)
        return np.array([np.sqrt(self.v ** 2 - 2 * self.kap * p ** 2 / self.l1), p])


def run(spinodal, paranoid):
    V = V2()
    V.configureDerivatives(WallGo.VeffDerivativeSettings(
        temperatureVariationScale=1.177970800092713,
        fieldValueVariationScale=[1302.9655638802517, 89.24280754235053]))
    Tstart, TMin, TMax, dT = 102.47535986278005, 97.98503786606776, 107.85614047569065, 1.2334456087716337
    fe = WallGo.FreeEnergy(V, Tstart, Fields(V.low(Tstart)))
    fe.tracePhase(TMin, TMax, dT, rTol=1e-5, spinodal=spinodal, paranoid=paranoid)
    X = np.asarray(fe._interpolationPoints)
    Y = np.asarray(fe._interpolationValues)
    T1 = V.T1()
    print(f"spinodal={spinodal} paranoid={paranoid}: phase exists up to T1={T1:.4f}; table ends at "
          f"{X[-1]:.4f} (requested {TMax:.4f}), end flag {fe.maxPossibleTemperature[1]}")
    for T, row in zip(X, Y):
        if T > T1 - 2 * dT:
            print(f"     T={T:9.4f}  (u,p)=({row[0]:.3f},{row[1]:9.4f})   closed-form low phase p="
                  f"{V.low(T)[1]:.4f}" + ("   <-- phase does not exist here" if T > T1 else ""))
    return bool(X[-1] <= T1 * (1 + 1e-4) and fe.maxPossibleTemperature[1])


if __name__ == "__main__":
    ok = [run(s, p) for s in (True, False) for p in (True, False)]
    print("PASS" if all(ok) else "FAIL")
    sys.exit(0 if all(ok) else 1)
