#!/venv/bin/python
"""Re-run every stored seeded change against the current checks:
tools/seed_regress.py [name-prefix ...]  -> one line per (seed, check); exit 1 if a seed is
caught by none of the checks that caught it before."""
import json, os, subprocess, sys
root = "/verif/seeded"
names = sorted(os.listdir(root))
if len(sys.argv) > 1:
    names = [n for n in names if any(n.startswith(p) for p in sys.argv[1:])]
bad = 0
for n in names:
    meta = json.load(open(os.path.join(root, n, "meta.json")))
    props = ",".join(dict.fromkeys(r["check"] for r in meta["ran"]))
    r = subprocess.run(["/verif/tools/seed_eval.py", meta["property"], n, "--props", props,
                        "--skip-suite", "--src", os.path.join(root, n)],
                       capture_output=True, text=True)
    lines = [l for l in r.stdout.splitlines() if l.startswith("check ") or l.startswith("demo")]
    caught = any("exit=1" in l for l in lines if l.startswith("check "))
    if not any(l.startswith("check ") for l in lines):
        print("ERROR  " + n + " " + (r.stderr or r.stdout)[-300:].replace("\n", " | "))
        bad += 1
        continue
    print(("CAUGHT " if caught else "MISSED ") + n)
    for l in lines:
        print("    " + l[:300])
    sys.stdout.flush()
    bad += not caught
sys.exit(1 if bad else 0)
