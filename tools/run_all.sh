#!/bin/sh
# usage: tools/run_all.sh <tier> <seed> [ids...]   -> one summary line per check
HERE="$(cd "$(dirname "$0")/.." && pwd)"
cd "$HERE"
TIER="${1:-quick}"; SEED="${2:-0}"; shift 2 2>/dev/null
IDS="$*"
[ -z "$IDS" ] && IDS="C19 C16 C17 C13 C14 C12 C18 C20 C10 C11 C09 C04 C02 C03 C06 C05 C15 C01 C08 C07"
mkdir -p out
./setup.sh >/dev/null 2>&1
for id in $IDS; do
  t0=$(date +%s)
  ./check $id --tier $TIER --seed $SEED > out/run_${id}_${TIER}_s${SEED}.log 2>&1
  rc=$?
  t1=$(date +%s)
  echo "$id tier=$TIER seed=$SEED exit=$rc wall=$((t1-t0))s $(grep -E 'VIOLATION|INCONCLUSIVE' out/run_${id}_${TIER}_s${SEED}.log | head -3 | tr '\n' ' ' | cut -c1-300)"
done
