#!/venv/bin/python
"""Run the repository's pinned suite in <repo dir> (default /repo) and compare with
/root/.vp/BASELINE.json: prints which stable-pass tests no longer pass."""
import json, os, subprocess, sys, tempfile
import xml.etree.ElementTree as ET

repo = sys.argv[1] if len(sys.argv) > 1 else "/repo"
base = json.load(open("/root/.vp/BASELINE.json"))
xml = tempfile.mktemp(suffix=".xml")
env = dict(os.environ, PYTHONPATH=os.path.join(repo, "src"))
env.pop("WALLGO_VERIF", None)
r = subprocess.run(["/venv/bin/python", "-m", "pytest", "-q", "-p", "no:cacheprovider",
                    "--timeout=900", "--continue-on-collection-errors", f"--junitxml={xml}"],
                   cwd=repo, env=env, capture_output=True, text=True)
passed = set()
for tc in ET.parse(xml).getroot().iter("testcase"):
    if not any(ch.tag in ("failure", "error", "skipped") for ch in tc):
        passed.add(f"{tc.get('classname')}::{tc.get('name')}")
os.remove(xml)
missing = [t for t in base["stable_pass"] if t not in passed]
print(f"SUITE passed={len(passed)} baseline={len(base['stable_pass'])} missing={len(missing)}")
for t in missing[:20]:
    print("  MISSING", t)
sys.exit(1 if missing else 0)
