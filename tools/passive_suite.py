#!/venv/bin/python
"""Run the repository's pinned test-suite under the harness's passive monitors
(lib/wgverif/passive_plugin.py).  usage: tools/passive_suite.py [repo dir]
Writes out/passive_suite.json and prints a summary; exit 1 if a monitor fired on a
mechanism that is not a listed known finding, 2 if a monitor observed nothing."""
import json, os, subprocess, sys
HERE = os.path.dirname(os.path.dirname(os.path.abspath(__file__)))
repo = sys.argv[1] if len(sys.argv) > 1 else "/repo"
out = os.path.join(HERE, "out", "passive_suite.json")
os.makedirs(os.path.dirname(out), exist_ok=True)
env = dict(os.environ, PYTHONPATH=os.path.join(HERE, "lib") + os.pathsep + os.path.join(repo, "src"),
           WGVERIF_REPO=repo, WGVERIF_PASSIVE_OUT=out, OMP_NUM_THREADS="1", OPENBLAS_NUM_THREADS="1")
subprocess.run([os.path.join(HERE, "setup.sh")], capture_output=True)
r = subprocess.run(["/venv/bin/python", "-m", "pytest", "-q", "-p", "no:cacheprovider", "-p",
                    "wgverif.passive_plugin", "--timeout=900", "--continue-on-collection-errors",
                    "tests"], cwd=repo, env=env, capture_output=True, text=True)
print(r.stdout.strip().splitlines()[-1] if r.stdout.strip() else r.stderr[-400:])
d = json.load(open(out))
print("monitor evaluations:", d["counts"], "| worst flux residual", d["c02_worst"])
unknown = [v for v in d["violations"] if "known" not in str(v.get("mech"))]
for v in d["violations"][:10]:
    print("  fired:", v)
if unknown:
    print("PASSIVE-SUITE: monitors fired on", len(unknown), "observations"); sys.exit(1)
if min(d["counts"].get(k, 0) for k in ("c17_events", "c18_post_states", "c02_matchings")) == 0:
    print("PASSIVE-SUITE: inconclusive (a monitor observed nothing)"); sys.exit(2)
print("PASSIVE-SUITE: silent")
