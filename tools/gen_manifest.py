#!/usr/bin/env python3
"""Regenerates /verif/MANIFEST.json from the table below and validates it."""
import json
import os

HERE = os.path.dirname(os.path.dirname(os.path.abspath(__file__)))

# property -> (technique, level text, level note, design ref)
CHECKS = {
    "C19": (
        "recording-wrapper monitor on the callable passed to the real derivative/gradient/"
        "hessian + closed-form oracle with per-call rounding bound",
        "Runtime monitoring: every abscissa the helpers evaluate is recorded and the result "
        "compared with the closed-form derivative, over every stencil row, placement relative "
        "to the bounds, monomial degree, step size over ten decades and input shape. Held on "
        "the executions observed; by linearity the monomial basis covers all polynomials of "
        "the stated degree.",
        "float64 closed-form monomial derivatives are the reference; intervals narrower than "
        "2x the stencil are counted, not judged",
        "DESIGN.md §4 C19"),
    "C02": (
        "postcondition monitor on every result of the real findMatching/findHydroBoundaries "
        "(general and template solver): fluxes recomputed from the closed-form EOS, "
        "tolerance propagated from the object's own solver tolerances; call-site monitors "
        "(hybr status, template fallback, branch) attribute failures to a mechanism",
        "Runtime monitoring of ~1000 (quick) / ~30000 (thorough) matchings on random bag, "
        "template and two-step equations of state over five decades of units, all three "
        "branches, with corner emphasis (slow walls, c_b, both sides of vJ). Held on the "
        "executions observed, except for the listed known finding.",
        "closed-form p, p', p'' of the analytic EOS; for traced potentials the fluxes are formed "
        "here from p, p', p'' of the manager's own Thermodynamics object",
        "DESIGN.md §4 C02, §5 F6"),
    "C03": (
        "reference-model monitor: every deflagration/hybrid matching returned by the real "
        "findMatching is re-integrated by an independent similarity-variable fluid "
        "integrator (DOP853, own equations) and crossed at the front; direct comparison of "
        "solveHydroShock and efficiencyFactor with the same reference",
        "Runtime monitoring of ~700 (quick) / ~20000 (thorough) matchings plus as many direct "
        "shock integrations and ~150/3000 efficiency factors, tolerance propagated from the "
        "object's (rtol, atol) through dT_n'/dv+. Held on the executions observed except for "
        "the listed known finding.",
        "front located at mu*xi = cs^2(T) and crossed with energy-flux continuity as the "
        "property states; weak shocks use the ln v form of the same reference equations",
        "DESIGN.md §4 C03"),
    "C06": (
        "postcondition monitor on every findMatching result (admissibility + classification "
        "inequalities against the closed-form c_b(T-)), independent Chapman-Jouguet oracle "
        "(v-^2 = c_b^2 on the detonation junction), and a range-cut workload deciding "
        "fastestDeflag()/slowestDeton() against the velocity at which the cut is reached",
        "Runtime monitoring of ~1600 (quick) / ~30000 (thorough) classified matchings of both "
        "solvers, ~100/2000 Jouguet oracles and ~45/900 range-cut configurations in either "
        "phase. Held on the executions observed except for the listed known finding.",
        "closed-form EOS; cut workload judged only where the real matching is monotone up to "
        "the cut (others counted)",
        "DESIGN.md §4 C06"),
    "C13": (
        "reference-model monitor on the real getDeltas/deltaToTmunu: deviations constructed "
        "so that the defining momentum integral is pi^2 c00(Q) by Chebyshev algebra "
        "(numpy.polynomial), explicit 4x4 Lorentz boost for the stress tensor, linearity; "
        "construction self-tested against dblquad/tplquad every run",
        "Runtime monitoring over all odd N 3..13 (+15,19,25), several M, both grid classes, "
        "momentum scales over four decades, mass profiles massless..10T, both statistics and "
        "all input bases; per-case rounding bounds. Held on the executions observed.",
        "exactness class of Gauss-Chebyshev-Lobatto quadrature as stated in the property; "
        "smooth non-polynomial deviations are recorded, not judged",
        "DESIGN.md §4 C13"),
    "C16": (
        "reference-algebra monitor: every changeBasis/evaluate/derivative/integrate/matrix "
        "result of the real Polynomial compared with numpy.polynomial.chebyshev series; "
        "recording wrappers on Polynomial.chebyshev/cardinal check each internal basis value",
        "Exhaustive over M,N in 2..12 (plus samples to 64), three directions, endpoints on/off, "
        "both bases, ranks 1-4 with mixed Array axes, every admissible degree; metamorphic "
        "axis-independence and linearity. Held on the executions observed.",
        "float64 Chebyshev algebra of numpy as reference; tolerance K eps g(n) sum|c_k|",
        "DESIGN.md §4 C16"),
    "C05": (
        "postcondition monitor on findvwLTE (general and template solver): entropy mismatch "
        "S(v)=T+g+ - T-g- scanned on 26 matchings of the real findMatching, each validated on "
        "the spot by the flux oracle and the reference flow; tolerance from measured dS/dv, "
        "dG/dv and the solver tolerances",
        "Runtime monitoring of ~120 (quick) / ~1900 (thorough) admissible equations of state "
        "with all three outcomes (interior, runaway sentinel, static sentinel) observed and "
        "counted; margin exclusions counted. Held on the executions observed except for the "
        "listed known findings.",
        "S is evaluated only on matchings that pass C02's flux oracle and C03's reference flow",
        "DESIGN.md §4 C05"),
    "C17": (
        "class-invariant monitor installed on Grid/Grid3Scales __init__ and rescale methods "
        "(shadow record of call arguments): monotonicity, origin->centre, cache==recomputation, "
        "Jacobian vs 40-digit mpmath derivative and vs quadrature of the reported Jacobian, "
        "round trips, centre slope L/r, bit-equality with a fresh construction after every call "
        "history",
        "Runtime monitoring of 420 (quick) / 5000 (thorough) grids over four decades of scales, "
        "both spacings, rescale histories up to 6/20 calls incl. the real EOM._updateGrid body "
        "and rejected calls. Held on the executions observed.",
        "per-point forward rounding bounds evaluated in mpmath; endpoints chi=+-1 recorded, not "
        "judged",
        "DESIGN.md §4 C17"),
    "C12": (
        "contract monitors on the real buildLinearEquations/solveBoltzmannEquations/"
        "setBackground (backward error of every solve, homogeneous-background nullity, "
        "determinism), metamorphic relation over the four basis combinations with "
        "numpy.polynomial conversion, finite-difference vs spectral convergence series, "
        "closed-form operator/source on polynomial backgrounds (complex-step f_eq)",
        "Runtime monitoring of 112 (quick) / 780 (thorough) Boltzmann configurations: 1-3 "
        "particles of both statistics, T/v/field/combined/homogeneous backgrounds, M 10..40 "
        "(series to 160), N 3..11, synthetic non-singular collision operators. Held on the "
        "executions observed.",
        "synthetic collision arrays (no real collision data offline); tolerances scaled by the "
        "measured condition number",
        "DESIGN.md §4 C12"),
    "C14": (
        "hook monitors on CollisionArray.newFromDirectory/changeBasis/"
        "interpolateCollisionArray and BoltzmannSolver.loadCollisions: uniquely tagged "
        "synthetic HDF5 directories, action-tensor oracle (numpy chebvander + scipy "
        "barycentric Lagrange), exact state comparison around injected load faults",
        "Fault enumeration + exploration: every subset of missing pair files (511 for three "
        "particles), oversize targets, size/basis mismatch in every file position, missing "
        "dataset/metadata, each inside ok->faulty->ok sequences on one solver; 1-3 particles, "
        "stored N 5..11, every smaller odd target, both bases. Held on the executions observed.",
        "synthetic files in the format newFromDirectory reads; non-HDF5 stubs recorded, not "
        "judged",
        "DESIGN.md §4 C14"),
    "C15": (
        "differential monitor between the two real solvers (Hydrodynamics vs "
        "HydrodynamicsTemplateModel) on template-form equations of state, tolerance "
        "propagated from both sides through sensitivities measured on the real code and the "
        "reference integrator; one-sided answers arbitrated by the flux and reference-flow "
        "oracles",
        "Runtime monitoring of ~1000 (quick) / ~25000 (thorough) matching pairs plus vJ, vMin, "
        "boundary constants, LTE velocity and efficiency factor on 140/3000 template parameter "
        "sets over five decades of T_n. Held on the executions observed except for the listed "
        "known findings.",
        "comparisons in which the general solver itself used its template fallback are counted "
        "as trivial and excluded from distinct_nontrivial",
        "DESIGN.md §4 C15"),
    "C20": (
        "reference-model monitor: direct J_b/J_f, every shipped table row, spline mid-points "
        "and derivatives compared with an mpmath reference (cross-checked against a Bessel "
        "series and a closed-form envelope every run); recording wrapper on the integrals "
        "object inside EffectivePotentialNoResum; before/after state monitor on the "
        "module-global defaultIntegrals",
        "All 20000 table rows in both tiers, direct integrals on [-60,3000] dense at the "
        "thresholds, all 16 extrapolation mode pairs beyond both table ends, random particle "
        "content over five decades of T incl. continuity scans in m^2 for every imaginary "
        "option. Held on the executions observed except for the listed known finding.",
        "mpmath tanh-sinh quadrature with explicit break points is the reference; tolerances "
        "from scipy quad's own termination criterion and the documented cubic-spline design",
        "DESIGN.md §4 C20"),
    "C04": (
        "postcondition monitor on the real EOM.findPlasmaProfile / findPlasmaProfilePoint: "
        "T30 and T33 recomputed from the analytic dV/dT, the tanh profile and an explicit 4x4 "
        "Lorentz boost of the out-of-equilibrium tensor; a proxy on scipy inside "
        "WallGo.equationOfMotion observes which branch (root / minimum / no solution) produced "
        "each point; far-field limits against the matching values",
        "Runtime monitoring of ~210 (quick) / ~3100 (thorough) profiles (6000 / 90000 grid "
        "points) on poly1/poly2/bag1 through the real manager: deflagration, hybrid and "
        "detonation branches (>= 40 % detonation points), M in {20,30,40}, errTol 1e-3..1e-8, "
        "zero and small random moments. Held on the executions observed.",
        "analytic dV/dT of the zoo potentials; P_trace/P_window/P_matching admissibility "
        "counted; T_out by own tensor boost",
        "DESIGN.md §4 C04"),
    "C09": (
        "reference-model monitor on EOM._intermediatePressureResults(multiplier=0) and "
        "EOM.wallProfile through the real manager: pressure vs closed-form V(low)-V(high), "
        "dphi/dz vs 40-digit mpmath derivative of the tanh ansatz; C17's grid invariant "
        "passively on every _updateGrid",
        "Runtime monitoring of ~380 (quick) / ~6300 (thorough) wall shapes: bag1 with noisy "
        "temperature profiles, poly1/poly2 with constant ones, widths within a factor 3, "
        "|offset| <= 2, M in {40..100}, unit factors 1e-2..1e2, field relabellings. Held on "
        "the executions observed.",
        "tolerance follows the measured grid resolution of the narrowest wall "
        "(max(1e-8, 30 exp(-6 rho)) of the integrand scale)",
        "DESIGN.md §4 C09"),
    "C10": (
        "reference-model + contract monitor on real traced Thermodynamics objects: identities "
        "among reported p, dp, ddp, e, w, cs2 to ulp level, reported derivatives vs local fits "
        "of the reported pressure, continuity across TMin/TMax (icontract postcondition on "
        "setExtrapolate), closed-form -V at the analytic minimum inside the range",
        "Runtime monitoring of 54 (quick) / 681 (thorough) traced equations of state "
        "(30k / 1.2M temperature evaluations from 0.05 TMin to 20 TMax, both phases, direct "
        "and manager routes, unit factors 0.01..94). Held on the executions observed.",
        "closed-form EOS of the zoo potentials; phases whose table left its branch are counted "
        "as inadmissible (C11's subject)",
        "DESIGN.md §4 C10"),
    "C11": (
        "postcondition monitor on FreeEnergy.tracePhase (table rows vs closed-form branch, "
        "analytic Hessian, flags and advertised range) with recording wrappers on "
        "findLocalMinimum and on scipy RK45 (every accepted step), interpolation probes, "
        "findCriticalTemperature vs closed form",
        "Runtime monitoring of 124 (quick) / 2900 (thorough) traces on poly1/poly2 over unit "
        "factors 1e-2..1e2, ranges inside / past one / past both ends of the existence "
        "interval, dT 1e-3..0.3 of it, rTol 1e-4..1e-8, paranoid on/off, field relabellings. "
        "Held on the executions observed.",
        "closed-form branches and spinodals; flag/range behaviour at soft ends (pitchforks) "
        "is recorded, not judged",
        "DESIGN.md §4 C11"),
    "C18": (
        "model-based monitor: random operation sequences on the real InterpolatableFunction "
        "(and JbIntegral, JfIntegral, FreeEnergy) checked after every operation against an "
        "executable reference model (shape, per-element value category, post-state), "
        "post-call invariant wrappers on nine class methods, NaN-poisoned np.empty inside the "
        "module to expose unassigned entries, history-independence and file round-trip "
        "metamorphic checks",
        "Runtime monitoring of 2128 (quick) / 26200 (thorough) operation sequences covering "
        "all 16 mode pairs x 4 input shapes x 3 operations, return dimensions 1..4, adaptive "
        "on/off. Held on the executions observed.",
        "spline-accuracy clause judged with Hall-Meyer bounds times calibrated safety "
        "factors; ~4 % of entries judged for shape/finiteness only",
        "DESIGN.md §4 C18"),
    "C01": (
        "trace monitor on the real EOM.wallPressure / EOM.solveWall during "
        "WallGoManager.solveWall: bracket reconstructed from the run's own pressure trace, "
        "independent re-evaluation on a fresh solver at v* -+ 2 errTol, window, bit-equality of "
        "the returned quantities with the last traced evaluation at v*, runaway/error "
        "labelling, and history independence by exact equality of a repeated solve after "
        "other operations on the same manager",
        "Runtime monitoring of 30 (quick) / 300 (thorough) model x settings x history cases on "
        "poly1/poly2/bag1 (grid sizes, tolerances, energy conservation on/off, with and "
        "without out-of-equilibrium particles on synthetic collision files, histories of 1-3 "
        "operations incl. detonation search and re-setup of another benchmark point). Held on "
        "the executions observed.",
        "P_trace admissibility; the sign probe is skipped for conserveEnergyMomentum=False "
        "(pressure not a function of v_w alone there)",
        "DESIGN.md §4 C01"),
    "C07": (
        "metamorphic monitor over recorded runs of the real pipeline at unit factor 1 and s: "
        "stage-wise comparison (phases at value level, equation of state, hydrodynamics, LTE, "
        "wall solve) with call-site monitors (minimiser iterations, table spacing, pressure "
        "start-dependence probe) attributing a divergence to its mechanism",
        "Runtime monitoring of 12 models x 2 factors (quick) / 40 models x 5 factors x 2 "
        "settings (thorough), factors 1e-2..1e2. Held on the executions observed except for "
        "the listed known findings.",
        "P_trace and P_margin required of the reference run; traced table ranges/flags are "
        "recorded, not judged (internal bookkeeping, not a result)",
        "DESIGN.md §4 C07"),
    "C08": (
        "metamorphic monitor over recorded runs of the real pipeline under x = A phi + b "
        "(signed permutation, translation up to 2 vev) applied consistently to potential, "
        "particles, guesses and scales; offsets compared after re-origining to the partner's "
        "first field; pressure start-dependence probe attributes solve-stage divergences",
        "Runtime monitoring of 11 models x 2 transformations (quick) / 34 x 7 (thorough) on "
        "poly2 (and poly1 for translation/reflection). Held on the executions observed except "
        "for the listed known finding.",
        "P_trace required of the reference run; vJ compared only when the Chapman-Jouguet "
        "point lies inside the tabulated ranges",
        "DESIGN.md §4 C08"),
}

ALL = [f"C{i:02d}" for i in range(1, 21)]
NOT_BUILT_REASON = ("check not built yet in this revision; the property is decidable by "
                    "runtime monitoring (DESIGN.md §4) and is not claimed until its monitor "
                    "has been validated")


# additions made after the second round of independently seeded changes (DESIGN.md 0.4)
ROUND2 = {
    "C02": ("the same postconditions on numerically traced potentials (real WallGoManager "
            "set-up: phase tracing, interpolation, extrapolation) and an existence oracle "
            "(continuity-checked sign change of T_n'(v+) up to the sonic limit) for template "
            "fallbacks",
            "Also ~90 (quick) / ~900 (thorough) matchings on equations of state traced by the "
            "real manager."),
    "C05": ("history monitor on WallGoManager.wallSpeedLTE(): parameters changed in place, "
            "set-up again, re-registered, new T_n; every value judged on the manager's current "
            "objects",
            "Also 8/60 manager histories with 2-4 set-ups each."),
    "C06": ("range-cut workload includes tabulated ranges ending below every detonation",
            ""),
    "C07": ("out-of-equilibrium unit pairs with synthetic (dimensionless) collision files; "
            "P_eos admissibility of the traced equation of state",
            "Also 4/12 out-of-equilibrium models per run."),
    "C03": ("velocity class between the template model's and the exact Jouguet velocity", ""),
    "C15": ("a quarter of the cases with limited phase ranges (table floors 0.3-0.8 T_n) and a "
            "share of strong transitions, so that vMin is compared under such ranges", ""),
    "C08": ("forced pure field exchanges in units with T_n >> 1 under a converged pressure "
            "iteration; end-state stationarity probe (real EOM.action) that keeps the known "
            "start-dependence finding from absorbing other divergences; out-of-equilibrium pairs "
            "whose reference run keeps sibling model instances of the other labellings alive; "
            "fixed-velocity probe of the real wallPressure judged under the same pinned field",
            ""),
    "C01": ("end-state stationarity probe (real EOM.action) discriminating the known "
            "start-dependence finding", ""),
    "C09": ("extreme unit factors 10^+-(3.3..4.3) on a fifth of the cases", ""),
    "C10": ("requested range ends placed relative to the recorded tracer steps (remainders "
            "1e-5..8e-3 dT beyond a step, exactly on, just before)", ""),
    "C11": ("re-trace histories on the same FreeEnergy object (finer dT, wider / narrower / "
            "equal ranges, paranoid toggled) judged by the same oracles after every call; "
            "range ends placed 0/+-1..3 ulp around a tracer step; two-scale fold model with "
            "hierarchical per-field variation scales; integer-typed starting guesses", ""),
    "C12": ("grid rescaled in place after the solver was constructed (position / momentum / "
            "Grid3Scales parameters, near-identity, sequences), judged against an independent "
            "reference system for the grid as it is now and against a solver built afterwards",
            ""),
    "C13": ("getDeltas before and after in-place grid rescales on the same solver", ""),
    "C14": ("operand-preservation monitor at every hook (numbers, labels and action of every "
            "input object unchanged) and sources kept in use across operations", ""),
    "C20": ("call-history cases on the stand-alone Integrals() object (500-1100 earlier "
            "evaluations over five decades, then judged against the reference and a fresh "
            "object)", ""),
}


def main():
    checks = []
    for pid in ALL:
        if pid not in CHECKS:
            continue
        tech, text, note, ref = CHECKS[pid]
        if pid in ROUND2:
            tech = tech + "; " + ROUND2[pid][0]
            text = text + " " + ROUND2[pid][1]
        checks.append({
            "property_id": pid,
            "quick_cmd": f"./check {pid} --tier quick",
            "thorough_cmd": f"./check {pid} --tier thorough",
            "evidence_file": f"evidence/{pid}.json",
            "replay_cmd_template": f"./check {pid} --replay {{path}}",
            "engine": "wgverif",
            "level_claimed": {"category": "exploration", "text": text, "design_ref": ref},
            "level_note": note,
            "technique": tech,
        })
    man = {
        "version": 1,
        "setup_cmd": "./setup.sh",
        "hooks": {
            "guard": "WALLGO_VERIF",
            "enable": "no source hooks in /repo: monitors are installed from the harness side "
                      "(wrapping class attributes / callables) by the check processes, which "
                      "set WALLGO_VERIF=1 themselves; /venv's editable install imports /repo's "
                      "working tree",
            "baseline_off_cmd": "cd /repo && /venv/bin/python -m pytest -ra -q -p "
                                "no:cacheprovider --timeout=900 --continue-on-collection-errors",
            "source_commits": [],
            "add_only": True,
        },
        "engines": [{
            "name": "wgverif", "path": "lib/wgverif",
            "serves_properties": sorted(CHECKS),
            "kind_free_text": "runtime monitors (recording wrappers, icontract contracts, "
                              "reference-model and metamorphic oracles) driven by seeded "
                              "workloads against the real WallGo classes",
        }],
        "checks": checks,
        "not_applicable": [{"property_id": p, "reason": NOT_BUILT_REASON}
                           for p in ALL if p not in CHECKS],
        "notes": "See DESIGN.md. Exit codes: 0 held, 1 violation (VIOLATION line), 2 "
                 "inconclusive (a deciding monitor was not reached; never on the unchanged tree).",
    }
    with open(os.path.join(HERE, "MANIFEST.json"), "w") as fh:
        json.dump(man, fh, indent=1)
    try:
        import jsonschema
        schema = json.load(open("/root/.vp/MANIFEST.schema.json"))
        jsonschema.validate(man, schema)
        print("MANIFEST valid;", len(checks), "checks")
    except ImportError:
        print("MANIFEST written (jsonschema not available)")


if __name__ == "__main__":
    main()
