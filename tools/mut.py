#!/venv/bin/python
"""Mutant driver: copy /repo to a scratch dir, apply a textual replacement (or a patch),
run one or more checks against the copy (WGVERIF_REPO), optionally the pinned test-suite,
remove the copy.

  tools/mut.py -p C19 -f src/WallGo/helpers.py --old 'A' --new 'B' [--count N] [--suite]
  tools/mut.py -p C19 --patch some.diff
"""
import argparse, os, shutil, subprocess, sys, tempfile, re

ap = argparse.ArgumentParser()
ap.add_argument("-p", "--prop", action="append", required=True)
ap.add_argument("-f", "--file")
ap.add_argument("--old")
ap.add_argument("--new")
ap.add_argument("--count", type=int, default=1, help="which occurrence (1-based); 0=all")
ap.add_argument("--patch")
ap.add_argument("--suite", action="store_true")
ap.add_argument("--tier", default="quick")
ap.add_argument("--seed", default="0")
a = ap.parse_args()

d = tempfile.mkdtemp(prefix="wgmut_", dir="/tmp")
try:
    subprocess.run(["rsync", "-a", "--exclude", ".git", "--exclude", "docs",
                    "/repo/", d + "/"], check=True)
    if a.patch:
        subprocess.run(["patch", "-p1", "-d", d, "-i", os.path.abspath(a.patch)], check=True,
                       stdout=subprocess.DEVNULL)
    else:
        p = os.path.join(d, a.file)
        s = open(p).read()
        n = s.count(a.old)
        if n == 0:
            print("MUT: pattern not found"); sys.exit(3)
        if a.count == 0:
            s2 = s.replace(a.old, a.new)
        else:
            idx = -1
            for _ in range(a.count):
                idx = s.find(a.old, idx + 1)
            if idx < 0:
                print("MUT: occurrence not found"); sys.exit(3)
            s2 = s[:idx] + a.new + s[idx + len(a.old):]
        open(p, "w").write(s2)
    envv = dict(os.environ, WGVERIF_REPO=d, WGVERIF_EVIDENCE_DIR=os.path.join(d, "_ev"))
    for prop in a.prop:
        r = subprocess.run(["/verif/check", prop, "--tier", a.tier, "--seed", a.seed], env=envv,
                           capture_output=True, text=True)
        lines = [l for l in r.stdout.splitlines() if re.search(r"VIOLATION|KNOWN|INCONCL|HELD| x\d+:", l)]
        print(f"MUT {prop}: exit={r.returncode}")
        for l in lines[:8]:
            print("   ", l[:300])
        if r.returncode not in (0, 1, 2):
            print(r.stderr[-1500:])
    if a.suite:
        r = subprocess.run(["/verif/tools/run_suite.py", d], capture_output=True, text=True)
        print(r.stdout.strip())
finally:
    shutil.rmtree(d, ignore_errors=True)
