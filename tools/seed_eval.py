#!/venv/bin/python
"""Evaluate a seeded change: tools/seed_eval.py <PID> <name> [--props C17,C09] [--tier quick]
Takes /tmp/wt_<PID>/patch.diff and demo_<PID>.py, confirms (demo passes on /repo, fails on
the patched copy; pinned suite passes on the patched copy), runs the listed checks against
the patched copy and stores everything under seeded/<name>/."""
import argparse, json, os, shutil, subprocess, sys, tempfile, time, re

ap = argparse.ArgumentParser()
ap.add_argument("pid"); ap.add_argument("name")
ap.add_argument("--props"); ap.add_argument("--tier", default="quick")
ap.add_argument("--src", help="dir holding patch.diff and the demo (default /tmp/wt_<PID>)")
ap.add_argument("--needs", default=""); ap.add_argument("--skip-suite", action="store_true")
a = ap.parse_args()
src = a.src or f"/tmp/wt_{a.pid}"
dst = f"/verif/seeded/{a.name}"
os.makedirs(dst, exist_ok=True)
patch = os.path.join(src, "patch.diff")
if os.path.isdir(src) and os.path.realpath(src) != os.path.realpath(dst):
    if os.path.exists(patch):
        shutil.copy(patch, os.path.join(dst, "patch.diff"))
    for f in os.listdir(src):
        if f.startswith("demo_") and f.endswith(".py"):
            shutil.copy(os.path.join(src, f), os.path.join(dst, f))
old_meta = {}
if os.path.exists(os.path.join(dst, "meta.json")):
    old_meta = json.load(open(os.path.join(dst, "meta.json")))
demo = [f for f in os.listdir(dst) if f.startswith("demo_") and f.endswith(".py")][0]
d = tempfile.mkdtemp(prefix="wgseed_", dir="/tmp")
meta = {"property": a.pid, "needs": a.needs or old_meta.get("needs", ""), "ran": [],
        "history": old_meta.get("history", []) + ([{"earlier_run": old_meta.get("ran")}] if old_meta.get("ran") else [])}
for k in ("suite_patched",):
    if k in old_meta:
        meta[k] = old_meta[k]
try:
    subprocess.run(["rsync", "-a", "--exclude", ".git", "--exclude", "docs", "/repo/", d + "/"], check=True)
    r = subprocess.run(["patch", "-p1", "-d", d, "-i", os.path.join(dst, "patch.diff")], capture_output=True, text=True)
    if r.returncode:
        print("PATCH FAILED", r.stdout[-500:], r.stderr[-300:]); sys.exit(3)
    def run_demo(root):
        e = dict(os.environ, PYTHONPATH=os.path.join(root, "src"))
        r = subprocess.run(["/venv/bin/python", os.path.join(dst, demo)], cwd=root, env=e,
                           capture_output=True, text=True, timeout=3600)
        return r.returncode, (r.stdout.strip().splitlines() or [""])[-1][:200]
    u = run_demo("/repo"); p = run_demo(d)
    print("demo unchanged:", u); print("demo patched:  ", p)
    meta["demo_unchanged"] = u; meta["demo_patched"] = p
    if not a.skip_suite:
        r = subprocess.run(["/verif/tools/run_suite.py", d], capture_output=True, text=True)
        meta["suite_patched"] = r.stdout.strip().splitlines()[0] if r.stdout.strip() else r.stderr[-200:]
        print(meta["suite_patched"])
    props = (a.props or a.pid).split(",")
    envv = dict(os.environ, WGVERIF_REPO=d, WGVERIF_EVIDENCE_DIR=os.path.join(d, "_ev"))
    for prop in props:
        t0 = time.time()
        r = subprocess.run(["/verif/check", prop, "--tier", a.tier], env=envv, capture_output=True, text=True, timeout=5400)
        lines = [l for l in r.stdout.splitlines() if re.search(r"VIOLATION| x\d+:", l)]
        mechs = sorted({re.sub(r" x\d+:.*", "", l).split("] ")[-1] for l in lines if " x" in l})
        print(f"check {prop} ({a.tier}): exit={r.returncode} mechs={mechs} {time.time()-t0:.0f}s")
        meta["ran"].append({"check": prop, "tier": a.tier, "exit": r.returncode, "mechanisms": mechs,
                            "caught": r.returncode == 1})
    json.dump(meta, open(os.path.join(dst, "meta.json"), "w"), indent=1)
finally:
    shutil.rmtree(d, ignore_errors=True)
